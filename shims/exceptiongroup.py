class ExceptionGroup(Exception):
    def __init__(self, message, exceptions):
        super().__init__(message, exceptions)
        self.message = message
        self.exceptions = tuple(exceptions)
