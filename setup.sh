#!/bin/bash
# Offline setup: build /verif/.deps from files on disk only. Idempotent.
set -e
cd "$(dirname "$0")"
WHEELS=/opt/veriftools/wheels
mkdir -p .deps/te
if [ ! -f .deps/te/typing_extensions.py ]; then
  # typing_extensions for the bare pyenv interpreters (pure python, one file)
  /venv/bin/python - <<'PY'
import zipfile, glob
w = sorted(glob.glob('/opt/veriftools/wheels/typing_extensions-*.whl'))[-1]
zipfile.ZipFile(w).extract('typing_extensions.py', '.deps/te')
PY
fi
if ! /venv/bin/python -c "import hypothesis" 2>/dev/null; then
  if [ ! -d .deps/hyp/hypothesis ]; then
    /venv/bin/pip install -q --no-index --find-links $WHEELS --target .deps/hyp hypothesis
  fi
fi
echo "setup ok"
