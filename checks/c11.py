"""C11 - context hooks: elaborate, unwrap, re-elaborate until steady state."""
from hypothesis import strategies as st

from vlib.driver import Outcome, run_shards
from vlib.hyp import hyp_search
from vlib.workers import ALL, WorkerDied, WorkerSet

PROPERTY = "C11"
LEVEL = "exploration"
RULE = ("Wrapper chains of length 1..7 over synthetic manager objects (unwrap_context hook returning None / the next manager / "
        "PRUNE / itself / the head of the chain; falsy (empty-container-like) managers and managers with an __eq__ of their own (equal to everything / refusing comparison) included; elaborate_context hook setting any subset of description, children, "
        "inner_stack, or replacing context.obj by another manager of the chain) and generator-based managers made by three "
        "@contextmanager functions (with an unwrap_context_generator hook returning None / next / PRUNE, without a hook, one "
        "delegating with `yield from`, and one holding a manager of its own whose context the hook must see on its Frame); is_exiting on or off; each case run three ways - fill_context(Context(...)) outside any "
        "extraction, the same from inside a hook of a running extract(), and (non-exiting) through a real frame holding the "
        "head manager in a with block followed by a second, independent wrapped manager that must be filled whatever happens to the first - on CPython 3.9-3.12. Oracle: a reference loop over the documented rule gives the "
        "expected hook-invocation log (elaborate on the original, unwrap, reset, elaborate again, ...) and the expected final "
        "obj / hide / description / inner_stack / children; the generator hook must receive the generator's outermost frame on "
        "both paths (inner stack present; exiting); a cycle must end in the 100-step RuntimeError; the three ways must agree. "
        "A few cases per shard run in a process of their own, so that the fill_context() outside any extraction is the first stackscope call that process ever makes (nothing has run add_glue_as_needed yet); in half of these the hooks of the synthetic managers are registered by the _stackscope_install_glue_ function of a module that has appeared in sys.modules but has not been seen by any extraction. "
        "Non-trivial: >= 2 successful unwrap steps, or a PRUNE, or a generator-based link reached; distinct = distinct IR.")
ASSUMPTIONS = [
    "the description set by the built-in contextlib glue is only recognised as 'set by the glue', its text is not asserted",
    "on the 100-step error only the error itself and termination are asserted, not the partial state",
]


def cases():
    mg = st.fixed_dictionaries({
        "t": st.just("mg"),
        "unwrap": st.sampled_from(["next", "next", "next", "none", "prune", "self", "back"]),
        "elab": st.lists(st.sampled_from(["desc", "children", "inner"]), unique=True, max_size=3),
        "objto": st.sampled_from([None, None, None, None, 0, 1, 2, 3, 4]),
        "eq": st.sampled_from([None, None, None, None, "true", "raise"]),
        "falsy": st.sampled_from([False, False, False, True]),
    })
    gcm = st.fixed_dictionaries({
        "t": st.just("gcm"), "fn": st.sampled_from(["a", "a", "b", "c", "d", "d", "e", "e"]),
        "hook": st.sampled_from(["next", "next", "none", "prune"]),
    })
    return st.fixed_dictionaries({"links": st.lists(st.one_of(mg, mg, gcm), min_size=1, max_size=7),
                                  "exiting": st.booleans()}).map(normalise)


def normalise(case):
    n = len(case["links"])
    for i, L in enumerate(case["links"]):
        if L["t"] == "mg" and L.get("objto") is not None:
            j = L["objto"]
            if j >= n or j == i or case["links"][j]["t"] != "mg":
                L["objto"] = None
    return case


def model(case):
    links = case["links"]
    n = len(links)
    log = []
    s = {"obj": 0, "hide": False, "desc": None, "inner": None, "children": None, "error": None}
    info = {"unwraps": 0, "prune": False, "gcm": False}
    cur = 0
    for _step in range(101):
        if _step == 100:
            # exactly 100 unwrap steps were made. Whether the chain is over now decides between "more than 100 steps"
            # (an error) and a chain that is exactly 100 long, for which the statement demands no error; the library
            # reports one all the same (it notices the end of a chain by one more unwrap step). Either is accepted there.
            s["boundary"] = True
        L = links[cur]
        if L["t"] == "mg":
            log.append(["elab", cur])
            if "desc" in L["elab"]:
                s["desc"] = "d%d" % cur
            if "children" in L["elab"]:
                s["children"] = ["c%d" % cur]
            if "inner" in L["elab"]:
                s["inner"] = "i"
            if L.get("objto") is not None:
                cur = L["objto"]
                L = links[cur]
            log.append(["unwrap", cur])
            r = L["unwrap"]
        else:
            info["gcm"] = True
            if not case["exiting"]:
                # fn "e": the generator's own stack is extracted with an error on it (an inner manager cannot be described)
                s["inner"] = "gen%d" % cur + ("+error" if L["fn"] == "e" else "")
            elif L["fn"] == "e":
                # exiting: the glue looks for the generator's frame with a helper extraction; what goes wrong in there (the
                # inner manager cannot be described) is reported by fill_context() as well
                s["discarded_error"] = True
            s["desc"] = "GLUE"
            if L["fn"] in ("a", "c", "d", "e"):
                log.append(["ucg", cur, True])
                r = L["hook"]
            else:
                r = "none"
        s["obj"] = cur
        if r == "next" and cur + 1 >= n:
            r = "none"
        if r == "none":
            break
        if r == "prune":
            s["hide"] = True
            info["prune"] = True
            break
        if L["t"] == "gcm" and L["fn"] == "e" and not case["exiting"]:
            # the wrapper's generator stack (extracted with an error on it) is thrown away with the wrapper: the error
            # is reported by fill_context() itself, once it has finished
            s["discarded_error"] = True
        cur = {"next": cur + 1, "self": cur, "back": 0}[r]
        info["unwraps"] += 1
        s["obj"] = cur
        s["inner"] = None
        s["children"] = None
    else:
        s["error"] = "RuntimeError"
    return s, log, info


def judge(case, res):
    exp, log, info = model(case)
    for mode in ("top", "inside", "frames", "stack"):
        if mode not in res:
            continue
        got = res[mode]
        if got.get("warnings"):
            return "%s: warnings %r" % (mode, got["warnings"])
        if mode == "frames" and got.get("tail_ok") is False:
            return "frames: a later context of the same frame was not filled (its hooks did not run to steady state): %r" % (
                got.get("tail"),)
        if exp.get("boundary") and not exp["error"] and got["error"] == "RuntimeError":
            continue
        if exp["error"]:
            if got["error"] != "RuntimeError":
                return "%s: expected the 100-step RuntimeError, got error=%r" % (mode, got["error"])
            continue
        if exp.get("discarded_error"):
            if "describing the inner manager fails" not in (got["error"] or ""):
                return "%s: the error recorded on a discarded inner stack is reported nowhere (error=%r)" % (mode, got["error"])
            if mode == "stack":
                continue      # the failure surfaces through the stack's own elaboration: nothing else to compare
        elif got["error"] is not None:
            return "%s: unexpected error %r" % (mode, got["error"])
        if got["log"] != log:
            return "%s: hook invocation log differs from the reference loop:\n got %r\n exp %r" % (mode, got["log"], log)
        for k in ("obj", "hide", "desc", "inner", "children"):
            if mode == "stack" and k == "desc":
                # an exit-stack child's description is composed by the glue around whatever the hooks said:
                # "<stack>.enter_context(<hook's description, or the manager's repr>)"
                if exp[k] is not None and exp[k] != "GLUE" and ("(%s)" % exp[k]) not in (got.get("desc_raw") or ""):
                    return "stack: the child's description %r does not carry the hook's description %r" % (
                        got.get("desc_raw"), exp[k])
                continue
            if got.get(k) != exp[k]:
                return "%s: final %s is %r, reference says %r (got %r)" % (mode, k, got.get(k), exp[k], got)
    return None


def check_case(ws, interps, case, out):
    viols = []
    for interp in interps:
        try:
            res = ws[interp].request({"op": "ctxhooks.run", "case": case})
        except WorkerDied as ex:
            viols.append({"desc": "interpreter %s died (exit %r)" % (interp, ex.returncode), "interp": interp})
            continue
        out.per_interp[interp] += 1
        v = judge(case, res)
        if v:
            viols.append({"desc": "%s [on %s]" % (v, interp), "interp": interp})
    exp, log, info = model(case)
    classes = {"exiting" if case["exiting"] else "not_exiting", "len.%d" % len(case["links"])}
    if exp["error"]:
        classes.add("cycle->error")
    if info["prune"]:
        classes.add("prune")
    if info["gcm"]:
        classes.add("gcm_reached")
    if info["unwraps"] >= 2:
        classes.add("unwraps>=2")
    if any(l[0] == "ucg" for l in log):
        classes.add("generator_hook_called")
    if any(L["t"] == "mg" and L.get("objto") is not None for L in case["links"]):
        classes.add("elaborate_replaces_obj")
    if any(L["t"] == "mg" and L.get("falsy") for L in case["links"][1:]):
        classes.add("falsy_inner_manager")
    out.note_case(case, info["unwraps"] >= 2 or info["prune"] or info["gcm"], classes=sorted(classes), n_eval=3 * len(interps))
    return viols


def fresh_process_case(interps, case, out):
    """the case's fill_context() outside any extraction is the FIRST stackscope call the process ever makes"""
    pending = bool(case.get("pending_glue"))
    with WorkerSet(interps, hooks=False, extra_env={"VERIF_C11_PENDING_GLUE": "1"} if pending else None) as ws:
        vs = check_case(ws, interps, case, out)
    key = "first_call_in_a_fresh_process" + (".hooks_are_pending_module_glue" if pending else "")
    out.extra[key] = out.extra.get(key, 0) + len(interps)
    return vs


def shard(arg):
    out = Outcome()
    interps = arg["interps"]
    if arg.get("fresh"):
        # in half of them the hooks of the synthetic managers are the not yet installed glue of a module
        fresh = st.tuples(cases(), st.booleans()).map(lambda p: dict(p[0], pending_glue=True) if p[1] else p[0])
        fail = hyp_search(fresh, lambda c: fresh_process_case(interps, c, out), seed=arg["seed"] + 7,
                          max_examples=arg["fresh"], shrink=arg["shrink"])
        if fail:
            v = fail["violations"][0]
            out.violation(v["desc"] + " [fill_context outside any extraction as the process's first stackscope call]",
                          dict(fail["case"], fresh_process=True), v["interp"], flaky=fail["flaky"])
            return out
    with WorkerSet(interps, hooks=False) as ws:
        fail = hyp_search(cases(), lambda c: check_case(ws, interps, c, out), seed=arg["seed"], max_examples=arg["n"],
                          shrink=arg["shrink"])
        if fail:
            v = fail["violations"][0]
            out.violation(v["desc"], fail["case"], v["interp"], flaky=fail["flaky"])
    return out


def run(ctx):
    nshards = ctx.pick(8, 16)
    args = [{"interps": ALL, "seed": ctx.shard_seed(i), "n": ctx.pick(800, 80000) // nshards, "shrink": not ctx.quick,
             "fresh": ctx.pick(6, 40)}
            for i in range(nshards)]
    out = run_shards("checks.c11", "shard", args)
    out.extra["interpreters"] = ALL
    return out


def replay(ctx, data):
    out = Outcome()
    interps = [data["interp"]] if data.get("interp") in ALL else ALL
    pending = {"VERIF_C11_PENDING_GLUE": "1"} if data["case"].get("pending_glue") else None
    with WorkerSet(interps, hooks=False, extra_env=pending) as ws:
        # (a worker serves one replay, so a case found by the fresh-process leg is replayed as it was found)
        for v in check_case(ws, interps, data["case"], out):
            out.violation(v["desc"], data["case"], v["interp"])
    return out
