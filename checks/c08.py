"""C08 - context metadata: start_line is the with line, varname the real `as` target (dynamic leg + stdlib leg)."""
from vlib import g1check

PROPERTY = "C08"
LEVEL = "exploration"
RULE = ("(The static leg also compiles a hand-written corpus of targets the standard library lacks: infinite float / complex constants and Ellipsis inside tuple subscripts, attributes / calls / subscripts through super() and super(K, self).) G1 with-programs with 25 `as`-target forms (none, local / global name, attribute, nested attribute, subscript by "
        "constant / by name, chained subscripts, subscript of an attribute, positional calls (with arguments; of a global callable, of a method, of a callable held in a local variable) then subscript, subscript by the constant ..., "
        "tuple, list, tuple of attribute and subscript, starred first / last / middle, nested unpacking; unsupported: walrus "
        "or arithmetic in a subscript, keyword call, slice with both bounds or with an omitted one) x 3 layouts (one line, manager call spread over lines, "
        "parenthesised) x 1-4 items, observed suspended and running on CPython 3.9-3.12; every reported context is matched to "
        "its item through obj. Oracle: the renderer's record of the with-keyword line and the target text; varname must be "
        "None (only for no/unsupported target), or parse (ast) to the same expression modulo Store/Load, List==Tuple and omitted slice bound == None (the compiler emits one code for both), or "
        "(unsupported/no target only) name a local bound to the manager. Both tiers add a static differential (a rotating 1/6 of the files in quick, all in thorough) over every with "
        "statement in the standard library of each interpreter (ast vs analyze_with_blocks). A program is non-trivial when >= 1 "
        "checked context belongs to an item with a non-name target or to a with statement spanning several lines; "
        "distinct = distinct IR.")
ASSUMPTIONS = [
    "[x] and (x,) targets compile to the same bytecode; the oracle identifies them (the repository's own test expects '(c,)')",
    "metadata is compared only for observations whose context list already matched the shadow stack (exactness is C01/C02)",
]

CFG = {
    "module": "checks.c08",
    "modes": ["susp", "run", "meta"],
    "prog_kinds": ["gen", "coro", "agen", "func"],
    "kinds_violation": ["meta."],
    "layout_twin": True,
}


def classify(prog, stats, feats):
    classes = set()
    if stats.get("meta.interesting"):
        classes.add("obs.meta_interesting")
    if stats.get("meta.checked"):
        classes.add("obs.meta_checked")
    return bool(stats.get("meta.interesting")), classes


def run(ctx):
    out = g1check.run(ctx, CFG, quick_n=960, thorough_n=60000, quick_table=120)
    from vlib import staticleg
    staticleg.run(ctx, out, "static.meta", ["3.9", "3.10", "3.11", "3.12"])
    return out


def replay(ctx, data):
    return g1check.replay(ctx, CFG, data)
