"""C06 - extraction is a pure observation: no perturbation, repeatable, nothing retained."""
from hypothesis import strategies as st

from vlib import chainstrat, withprog
from vlib.driver import Outcome, run_shards
from vlib.hyp import hyp_search
from vlib.workers import ALL, WorkerDied, WorkerSet

PROPERTY = "C06"
LEVEL = "exploration"
RULE = ("(In a process of its own per interpreter: a running async generator without a Python caller - driven by its asend().send as a thread function - extracted 600 times from inside itself while the interpreter's instruction caches adapt; the process survives and the run equals the un-observed one.) G1 with-programs (all four function kinds) and G2 await/yield-from chains; for each, a Hypothesis-drawn subset of "
        "its suspension points and probe (running) points at which extraction is performed, a repetition count 1-3 and the "
        "context-analysis mode (trickery / referents); CPython 3.9-3.12. Between two extractions that are compared the first result is read in every way (str, format, format_flat, summaries, clsname / linetext of each frame). Oracles: (a) metamorphic - the event trace of the "
        "program (values yielded, managers entered/exited in order with the exception type they saw, probe calls, exceptions, "
        "result) with extractions at the chosen points is identical to the trace of the never-observed twin; (b) two consecutive "
        "extractions of the unchanged target compare equal; (c) retention - after one warm-up extraction in the same state, "
        "sys.getrefcount of the managers, the target, its frame and the bound methods on its value stack is unchanged by further "
        "extract-and-drop rounds, no object defined in a stackscope module refers to a manager, and the target is collectable "
        "(weakref dies) after the run, (c0) interpreter-wide settings (gc enabled / thresholds / debug flags, switch interval, trace and profile functions, recursion limit, warning filters, thread count, tracebacklimit, excepthook, asyncgen hooks) are the same after the observed run as before it, a third of the runs being made with automatic gc disabled; (c1) also after the trickery analysis of the target's frame was made to fail (faults injected at up to 12 points inside it; the library then warns and falls back); (c2) on 3.11+, for a running frame that is inside a C-level call (every other probe goes through a C callable), the raw inspect_frame snapshot reads no more value-stack slots than the depth of the exception-table entry covering f_lasti as parsed by the standard library's dis (0 when none); (d) the worker process survives (a death is reported with the case). Also replays the "
        "saved F9 crash history. Non-trivial: a program with >= 2 extraction points at which managers were active and a later "
        "resumption; distinct = distinct (IR, points, mode).")
ASSUMPTIONS = [
    "reference counts are compared after a warm-up extraction in the same state: the first look at a frame makes CPython "
    "materialise and cache its f_locals dict, which holds one reference per local, once (growth per extraction is what is flagged)",
    "memory corruption that neither crashes nor perturbs behaviour / reference counts is not visible",
]


@st.composite
def twin_cases(draw):
    prog = draw(withprog.programs())
    # most programs finish within a handful of steps: two thirds of the picks come from the first eight
    picks = draw(st.lists(st.one_of(st.integers(0, 7), st.integers(0, 7), st.integers(0, 59)), min_size=0, max_size=12,
                          unique=True))
    ppicks = draw(st.lists(st.integers(1, 40), min_size=0, max_size=10, unique=True))
    points = [["s", i] for i in sorted(picks)] + [["p", j] for j in sorted(ppicks)]
    return {"prog": prog, "points": points, "repeat": draw(st.sampled_from([1, 1, 2, 3])),
            "trickery": draw(st.sampled_from([True, True, False])),
            "fail_trickery": draw(st.sampled_from([0, 0, 1, 2, 5, 11])),
            "gc_off": draw(st.sampled_from([False, False, True]))}


@st.composite
def chain_cases(draw):
    ir = draw(chainstrat.chains())
    return {"ir": ir, "steps": sorted(draw(st.lists(st.integers(0, 4), min_size=1, max_size=3, unique=True))),
            "repeat": draw(st.sampled_from([1, 2, 3]))}


def check(ws, interps, req, case, out, classes):
    viols = []
    nontrivial = False
    for interp in interps:
        try:
            res = ws[interp].request(req)
        except WorkerDied as ex:
            viols.append({"desc": "interpreter %s died (exit %r) during / after extraction" % (interp, ex.returncode),
                          "interp": interp})
            continue
        out.per_interp[interp] += 1
        s = res["stats"]
        for k, v in s.items():
            out.extra["obs." + k] = out.extra.get("obs." + k, 0) + v
        if s["points_nonempty"] >= 2 and s["resumed_after_extraction"]:
            nontrivial = True
        if req["op"] == "pure.chain" and s["extraction_points_hit"] >= 1 and s["resumed_after_extraction"]:
            nontrivial = nontrivial or len(case["ir"]["links"]) >= 2
        if res["obs"]:
            viols.append({"desc": "%s on %s: %r" % (res["obs"][0]["kind"], interp, res["obs"][0]), "interp": interp,
                          "obs": res["obs"], "src": res.get("src")})
    out.note_case(case, nontrivial, classes=classes, n_eval=len(interps))
    return viols


def shard(arg):
    from checks import c16
    out = Outcome()
    interps = arg["interps"]
    with WorkerSet(interps, hooks=False) as ws:
        def twin(c):
            cls = ["twin", "mode.trickery" if c["trickery"] else "mode.referents", "repeat.%d" % c["repeat"],
                   "kind." + c["prog"]["kind"]]
            if c["trickery"] and c.get("fail_trickery"):
                cls.append("with_injected_trickery_failures")
            if c.get("gc_off"):
                cls.append("automatic_gc_disabled")
            return check(ws, interps, dict(c, op="pure.twin"), c, out, cls)
        fail = hyp_search(twin_cases(), twin, seed=arg["seed"], max_examples=arg["n"], shrink=arg["shrink"])
        if fail:
            v = fail["violations"][0]
            out.violation(v["desc"], fail["case"], v["interp"], obs=v.get("obs"), src=v.get("src"), flaky=fail["flaky"])
        else:
            fail = hyp_search(chain_cases(), lambda c: check(ws, interps, dict(c, op="pure.chain"), c, out, ["chain"]),
                              seed=arg["seed"] + 1, max_examples=arg["n_chain"], shrink=arg["shrink"])
            if fail:
                v = fail["violations"][0]
                out.violation(v["desc"], fail["case"], v["interp"], obs=v.get("obs"), flaky=fail["flaky"])
    if arg.get("regress"):
        c16.run_regress_sequences(out)
        c_driven_agen(out, interps)
    return out


def c_driven_agen(out, interps):
    """each in a process of its own (what is looked for is a crash of the interpreter)"""
    case = {"c_driven_agen": True}
    for interp in interps:
        with WorkerSet([interp], hooks=False) as ws:
            try:
                res = ws[interp].request({"op": "pure.c_driven_agen", "iterations": 300}, timeout=300)
            except WorkerDied as ex:
                out.violation("interpreter %s DIED (exit %r) while a running async generator without a Python caller was "
                              "extracted from inside itself" % (interp, ex.returncode), case, interp)
                continue
        out.per_interp[interp] += 1
        out.evaluations += res["stats"]["extractions"]
        if res["obs"]:
            out.violation("%s on %s: %r" % (res["obs"][0]["kind"], interp, res["obs"][0]), case, interp)
    out.note_case(case, True, classes=["running_async_generator_driven_by_a_C_callable"], n_eval=len(interps))


def run(ctx):
    nshards = ctx.pick(8, 16)
    args = [{"interps": ALL, "seed": ctx.shard_seed(i), "n": ctx.pick(320, 32000) // nshards,
             "n_chain": ctx.pick(160, 16000) // nshards, "shrink": not ctx.quick, "regress": i == 0} for i in range(nshards)]
    out = run_shards("checks.c06", "shard", args)
    out.extra["interpreters"] = ALL
    return out


def replay(ctx, data):
    out = Outcome()
    interps = [data["interp"]] if data.get("interp") in ALL else ALL
    case = data["case"]
    if case.get("c_driven_agen"):
        c_driven_agen(out, interps)
        return out
    if "sequence" in case:
        from checks import c16
        c16.run_regress_sequences(out)
        out.note_case(case, True)
        return out
    with WorkerSet(interps, hooks=False) as ws:
        op = "pure.chain" if "ir" in case else "pure.twin"
        for v in check(ws, interps, dict(case, op=op), case, out, []):
            out.violation(v["desc"], case, v["interp"], obs=v.get("obs"), src=v.get("src"))
    return out
