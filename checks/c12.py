"""C12 - customizations bind to exactly the code that runs; every customize option works."""
import itertools

from hypothesis import strategies as st

from vlib.driver import Outcome, run_shards
from vlib.hyp import hyp_search
from vlib.workers import ALL, WorkerDied, WorkerSet

PROPERTY = "C12"
LEVEL = "exploration"
RULE = ("(A third of the nestings define every nested name twice in its scope, a stub first - the overload pattern: the name resolves to the last definition, the one that runs.) (i) wrapper towers of depth 0..6 over {functools.partial (positional / keyword), functools.wraps wrapper, "
        "update_wrapper'd lambda, bound method, classmethod reached through class / instance attribute, staticmethod attribute} "
        "with optionally a raw classmethod / staticmethod object on top; the base function records the code object that "
        "actually executes when the tower is called: get_code(tower) must be that very object and a hook registered through "
        "the tower must fire for the base function's frame. Nested-name paths in generated nestings of functions and classes "
        "(depth 1..4). (ii) registration sequences (by function, code object, decorator form, partial) over three code objects "
        "two of which are equal-but-distinct (same source compiled twice), for elaborate_frame and unwrap_context_generator; "
        "model = dict keyed by identity, latest registration wins. (iii) the FULL product hide x hide_line x prune x {no "
        "elaborate, returns None, returns a replacement, returns PRUNE, returns [], returns [item, next_inner]} x {direct, decorator, nested-name} = 144 combinations (exhaustive), and the 120 with a callback once more with the callback given as a falsy callable object, "
        "observed on real frames through extract_since. (iv) IdentityDict against an identity-keyed list model under generated "
        "operation sequences over keys that are == but distinct, unhashable, or change hash. CPython 3.9-3.12. Non-trivial: "
        "tower of depth >= 3 mixing >= 2 wrapper kinds; registration sequence in which exactly one of the equal pair is "
        "registered at a check; every customize combination; IdentityDict sequence of >= 8 operations; distinct = distinct IR.")
ASSUMPTIONS = [
    "'the code that executes when the target is called' is the innermost decorated function's code (wrappers run too)",
]

LAYERS = ["partial", "partial_kw", "wraps", "wraps2", "method", "classmethod_attr", "classmethod_inst", "staticmethod_attr"]


def towers():
    return st.fixed_dictionaries({"layers": st.lists(st.sampled_from(LAYERS), min_size=0, max_size=6),
                                  "top": st.sampled_from([None, None, None, "classmethod_raw", "staticmethod_raw"])})


@st.composite
def nestings(draw):
    """source of `top` with nested defs/classes; returns src, path, getter"""
    depth = draw(st.integers(1, 4))
    kinds = [draw(st.sampled_from(["def", "class"])) for _ in range(depth)]
    kinds[-1] = "def"
    names = ["n%d_%s" % (i, draw(st.sampled_from(["a", "b", "c"]))) for i in range(depth)]
    decoys = draw(st.booleans())
    # the nested function's name is also used by a sibling closure, so that in the enclosing function it is a cell variable
    # rather than a plain local (co_cellvars, not co_varnames)
    captured = draw(st.booleans())
    # PEP 695 (3.12+): `def n[T](...)` / `class n[T]:` - the compiler wraps each in a scope of its own
    generic = draw(st.sampled_from([False, False, True]))
    tp = "[T]" if generic else ""
    # every nested name is defined twice in its scope (typing.overload stubs followed by the implementation; a conditional
    # redefinition): calling / looking up the name gives the LAST definition, which is the code that runs
    # ("finally": the earlier definition sits in a try body after an early return, the real one in the finally clause - the
    # compiler emits the finally body first, at the return, so that source order and order of compilation differ)
    redefined = draw(st.sampled_from([False, False, False, "twice", "twice", "finally"]))
    wrapped = []
    lines = ["NEVER = False", "def top():"]
    ind = 1
    getter = "top()"
    prev = "def"
    for i, (k, n) in enumerate(zip(kinds, names)):
        if decoys:
            # a decoy constant and a sibling with another name before the real one
            lines.append("    " * ind + "zz_%d = %d" % (i, i))
            lines.append("    " * ind + "def other_%d(): return %d" % (i, i))
            # siblings whose names merely resemble the wanted one (longer / shorter), defined first
            lines.append("    " * ind + "def %sx(): return %d" % (n, i))
            lines.append("    " * ind + "def %s(): return %d" % (n[:-1], i))
        in_function = i == 0 or kinds[i - 1] == "def"
        wrap = redefined == "finally" and in_function
        wrapped.append(wrap)
        if wrap:
            lines.append("    " * ind + "try:")
            lines.append("    " * (ind + 1) + "if NEVER: return None")
            ind += 1
        if redefined:
            if k == "def":
                lines.append("    " * ind + "def %s%s(*a): return 'stub %d'" % (n, tp, i))
            else:
                lines.append("    " * ind + "class %s%s: stub = %d" % (n, tp, i))
        if wrap:
            lines.append("    " * (ind - 1) + "finally:")
        if k == "def":
            lines.append("    " * ind + "def %s%s(*a):" % (n, tp))
        else:
            lines.append("    " * ind + "class %s%s:" % (n, tp))
        ind += 1
    lines.append("    " * ind + "return 'leaf'")
    # returns, innermost to outermost
    for i in range(depth - 1, -1, -1):
        ind -= 2 if wrapped[i] else 1
        if i == 0 or kinds[i - 1] == "def":
            if captured:
                lines.append("    " * ind + "def user_%d(): return %s" % (i, names[i]))
            lines.append("    " * ind + "return %s" % names[i])
    # getter expression
    g = "top()"
    for i in range(1, depth):
        if kinds[i - 1] == "def":
            g = "%s()" % g if i > 1 else g
        if kinds[i - 1] == "class":
            pass
    # build getter by walking: value after resolving level i
    expr = "top()"       # = object named names[0]
    for i in range(1, depth):
        if kinds[i - 1] == "def":
            expr = "%s()" % expr          # call the function -> returns names[i]
        else:
            expr = "%s.%s" % (expr, names[i])   # class attribute
    return {"src": "\n".join(lines) + "\n", "path": names, "getter": expr, "kinds": kinds + (["captured_by_sibling"] if captured else []) + (["pep695_generic"] if generic else []) + (["name_defined_twice"] if redefined else []) + (["redefined_in_finally_after_early_return"] if redefined == "finally" else [])}


def registry_ops():
    op = st.one_of(
        st.tuples(st.just("reg"), st.sampled_from(["A1", "A2", "B"]), st.integers(1, 99),
                  st.sampled_from(["func", "code", "decorator", "partial"])).map(list),
        st.tuples(st.just("regctx"), st.sampled_from(["A1", "A2", "B"]), st.integers(1, 99)).map(list),
        st.just(["check"]))
    return st.lists(op, min_size=2, max_size=10).map(lambda ops: {"ops": ops + [["check"]]})


def idict_ops():
    k = st.integers(0, 11)
    v = st.integers(0, 5)
    op = st.one_of(st.tuples(st.just("set"), k, v).map(list), st.tuples(st.just("set"), k, v).map(list),
                   st.tuples(st.just("get"), k).map(list), st.tuples(st.just("del"), k).map(list),
                   st.tuples(st.just("pop"), k, st.integers(0, 7)).map(list), st.tuples(st.just("pop_nodefault"), k).map(list),
                   st.tuples(st.just("getdef"), k, st.integers(0, 7)).map(list),
                   st.tuples(st.just("setdefault"), k, v).map(list), st.just(["popitem"]), st.just(["mutate"]),
                   st.just(["clear"]), st.tuples(st.just("contains"), k).map(list), st.just(["copy_eq"]))
    return st.lists(op, min_size=1, max_size=30).map(lambda ops: {"ops": ops})


def customize_product():
    out = []
    for hide, hl, prune, ek, form in itertools.product([False, True], [False, True], [False, True],
                                                        ["none", "returns_none", "returns_repl", "returns_prune", "returns_empty_list",
                                                         "returns_insert"],
                                                        ["direct", "decorator", "nested"]):
        out.append({"hide": hide, "hide_line": hl, "prune": prune, "elaborate": ek, "form": form})
        if ek != "none":
            # ... and the same with the callback given as a callable object that happens to be falsy
            out.append({"hide": hide, "hide_line": hl, "prune": prune, "elaborate": ek, "form": form,
                        "callable_kind": "falsy_object"})
    return out


def ask(ws, interps, req, out, case, nontrivial, classes):
    viols = []
    for interp in interps:
        try:
            res = ws[interp].request(req)
        except WorkerDied as ex:
            viols.append({"desc": "interpreter %s died (exit %r)" % (interp, ex.returncode), "interp": interp})
            continue
        out.per_interp[interp] += 1
        if callable(nontrivial):
            nt = nontrivial(res)
        else:
            nt = nontrivial
        if res["obs"]:
            viols.append({"desc": "%s on %s: %r" % (res["obs"][0]["kind"], interp, res["obs"][0]), "interp": interp})
    out.note_case(case, nt if interps else False, classes=classes, n_eval=len(interps))
    return viols


def shard(arg):
    out = Outcome()
    interps = arg["interps"]
    with WorkerSet(interps, hooks=False) as ws:
        for combo in arg["customize"]:
            v = ask(ws, interps, dict(combo, op="dispatch.customize"), out, {"customize": combo}, True,
                    ["customize", "customize.form." + combo["form"]])
            if v:
                out.violation(v[0]["desc"], {"customize": combo}, v[0]["interp"])
        legs = [
            ("tower", towers(), "dispatch.tower", arg["n"],
             lambda c: len(c["layers"]) >= 3 and len(set(c["layers"])) >= 2,
             lambda c: ["tower", "tower.depth.%d" % len(c["layers"])] + ["tower." + l for l in set(c["layers"])] +
                       (["tower.top." + c["top"]] if c["top"] else [])),
            ("nested", nestings(), "dispatch.nested", arg["n"] // 2, lambda c: len(c["path"]) >= 2,
             lambda c: ["nested", "nested.depth.%d" % len(c["path"])] + ["nested.via_" + k for k in set(c["kinds"])]),
            ("registry", registry_ops(), "dispatch.registry", arg["n"] // 2, None, lambda c: ["registry"]),
            ("identitydict", idict_ops(), "dispatch.identitydict", arg["n"], lambda c: len(c["ops"]) >= 8,
             lambda c: ["identitydict"] + ["idict." + o[0] for o in c["ops"]]),
        ]
        for name, strat, op, n, nt, cls in legs:
            if out.violations or n <= 0:
                break
            if nt is None:
                ntf = lambda c: (lambda res: bool(res["stats"].get("equal_pair_distinguished")))  # noqa: E731
            else:
                ntf = lambda c, nt=nt: nt(c)  # noqa: E731
            fail = hyp_search(strat, lambda c: ask(ws, interps, dict(c, op=op), out, c, ntf(c), sorted(set(cls(c)))),
                              seed=arg["seed"], max_examples=n, shrink=arg["shrink"])
            if fail:
                v = fail["violations"][0]
                out.violation(v["desc"], dict(fail["case"], _leg=op), v["interp"], flaky=fail["flaky"])
    return out


def run(ctx):
    nshards = ctx.pick(8, 16)
    prod = customize_product()
    args = [{"interps": ALL, "seed": ctx.shard_seed(i), "n": ctx.pick(640, 64000) // nshards, "shrink": not ctx.quick,
             "customize": prod[i::nshards]} for i in range(nshards)]
    out = run_shards("checks.c12", "shard", args)
    out.extra["interpreters"] = ALL
    out.extra["customize_combinations"] = len(prod)
    out.extra["customize_product_exhaustive"] = True
    return out


def replay(ctx, data):
    out = Outcome()
    interps = [data["interp"]] if data.get("interp") in ALL else ALL
    case = dict(data["case"])
    with WorkerSet(interps, hooks=False) as ws:
        if "customize" in case:
            req = dict(case["customize"], op="dispatch.customize")
        else:
            req = dict(case, op=case.pop("_leg"))
        for v in ask(ws, interps, req, out, data["case"], True, []):
            out.violation(v["desc"], data["case"], v["interp"])
    return out
