"""C17 - library glue is installed exactly once, in time, module-provided beats built-in."""
from hypothesis import strategies as st

from vlib.driver import Outcome, run_shards
from vlib.hyp import hyp_search
from vlib.workers import ALL, WorkerDied, WorkerSet

PROPERTY = "C17"
LEVEL = "exploration"
RULE = ("(A module with both kinds of glue that is in sys.modules under two names, in three orders: its own glue once, the built-in one never.) (A module imported with importlib.util.LazyLoader that has both kinds of glue: not loaded by the scan, no built-in glue while unloaded, its own glue exactly once after the program has used it.) (Re-entry: a module's glue function extracts a stack itself; a glue function fails and the program's warnings.showwarning hook extracts one - every extraction returns, each glue runs once, the other module's glue is installed too.) History leg: Hypothesis-generated sequences (3-14 operations) over 4 module slots: add a fresh module {with its own "
        "_stackscope_install_glue_ | with built-in glue pending | both | neither | own glue that raises | built-in glue that "
        "raises | both kinds with the module's own glue raising | a None entry | a present module whose built-in glue, declared now, fails (must warn, not raise) | a module of a lazily-loading type (any attribute access, __dict__ included, would make it load: an extraction must not) | a module that is already in sys.modules when the built-in glue for it is declared (the situation of every module imported before stackscope), without or with glue of its own | [during an extraction, by a hook that then calls extract_child(): the glue must have run when that nested extraction returns] | own glue that, when run, inserts a further glue-bearing helper module (which may be handled by the running extraction or the next one)}, remove, re-insert (same object, a new module object of the same name and kind, or - where the name belonged to a glue-less module or a None entry - a new module object that does have glue), extract; a third of the histories are built around one name changing hands (add, optionally extract, remove, re-insert, filler insertion, extract); judged after "
        "every extract by a model (per module object: own glue unrun?; per name: built-in glue pending and not superseded?): the "
        "set of glue functions run by that extraction equals the model's, exactly one RuntimeWarning per failing glue, extract "
        "returns normally; over the history no glue function ran twice and never both kinds for one module. Schedule leg "
        "(guarded hooks): 2-4 threads call extract at once with 1-4 modules pending; a generated schedule drives a cooperative "
        "controller over the yield points {after the fast-path test, after taking the lock, before each glue call}; same oracle "
        "plus 'every thread's extract returned only after all glue had run'. CPython 3.9-3.12. Non-trivial: history with >= 1 "
        "removal and >= 2 extractions; schedule in which a second thread passed the fast-path test while the first was "
        "scanning; distinct = distinct IR. Cases matching the open finding F4's signature are counted and excluded.")
ASSUMPTIONS = [
    "built-in glue is registered through stackscope._glue.builtin_glue (the only interface there is) while the module is absent",
    "interleavings are explored at the granularity of the guarded yield points, which coincide with real preemption points",
    "F4 signature: an extraction starts while len(sys.modules) equals its value at the last scan, glue is pending for a "
    "present module, and that extraction runs no glue at all",
]

KINDS = ["mod", "bi", "both", "none", "raise", "biraise", "nonemod", "importer", "importer", "bothraise", "bipresent", "bothpresent", "lazy", "biraisepresent"]


def histories():
    op = st.one_of(
        st.tuples(st.just("add"), st.integers(0, 3), st.sampled_from(KINDS)).map(list),
        st.tuples(st.just("add"), st.integers(0, 3), st.sampled_from(KINDS)).map(list),
        st.tuples(st.just("remove"), st.integers(0, 3)).map(list),
        st.tuples(st.just("readd"), st.integers(0, 3), st.sampled_from(["same", "new", "newglue"])).map(list),
        st.just(["extract"]), st.just(["extract"]), st.just(["extract", "outermost"]), st.just(["extract", "since"]),
        # [extract, nested]: a hook inserts a glue-bearing module mid-extraction and starts a nested extract_child()
        st.tuples(st.just("nested"), st.integers(0, 3)).map(list))
    return st.lists(op, min_size=3, max_size=14).map(lambda ops: {"ops": _expand(ops) + [["extract"]]})


def reuse_histories():
    """a module name changes hands: [add slot k1] [extract]? [remove slot] [readd slot same/new/newglue] plus a filler insertion
    so that the module count differs from the one at the last scan (the F4 fast path is not what this is about), then extract"""
    return st.tuples(st.lists(st.tuples(st.just("add"), st.integers(2, 3), st.sampled_from(KINDS)).map(list), max_size=2),
                     st.sampled_from(KINDS), st.booleans(), st.sampled_from(["same", "new", "newglue", "newglue"]),
                     st.sampled_from(["none", "mod", "bi", "nonemod"]), st.booleans()).map(
        lambda p: {"ops": p[0] + [["add", 0, p[1]]] + ([["extract"]] if p[2] else []) + [["remove", 0], ["readd", 0, p[3]]]
                   + ([["add", 1, p[4]]] if p[5] else [["add", 1, p[4]], ["add", 2, "none"]]) + [["extract"]]})


def _expand(ops):
    out = []
    for op in ops:
        if op[0] == "nested":
            out.append(["extract"])
        out.append(op)
    return out


def schedules():
    return st.fixed_dictionaries({
        "nthreads": st.integers(2, 4),
        "modules": st.lists(st.sampled_from(["mod", "bi", "both", "raise", "biraise", "none"]), min_size=1, max_size=4),
        "schedule": st.lists(st.integers(0, 11), min_size=2, max_size=30),
    })


def check_history(ws, interps, case, out, ctx_open):
    viols = []
    hist_stats = {}
    for interp in interps:
        try:
            res = ws[interp].request({"op": "glue.history", "ops": case["ops"]})
            hist_stats = res.get("stats", {})
        except WorkerDied as ex:
            viols.append({"desc": "interpreter %s died (exit %r)" % (interp, ex.returncode), "interp": interp})
            continue
        out.per_interp[interp] += 1
        for k, v in res["stats"].items():
            out.extra["history." + k] = out.extra.get("history." + k, 0) + v
        for kn in res["known"]:
            if "F4" in ctx_open:
                out.known_hit("F4", {"ops": case["ops"], "interp": interp, "pending_not_installed": kn["expected"]})
            else:
                viols.append({"desc": "glue not installed although pending (len(sys.modules) fast path) on %s: %r" % (
                    interp, kn), "interp": interp})
        if res["obs"]:
            viols.append({"desc": "%s on %s: %r" % (res["obs"][0]["kind"], interp, res["obs"][0]), "interp": interp})
    nrem = sum(1 for o in case["ops"] if o[0] == "remove")
    next_ = sum(1 for o in case["ops"] if o[0] == "extract")
    classes = ["history"] + ["op." + o[0] for o in case["ops"]] + ["kind." + o[2] for o in case["ops"] if o[0] == "add"]
    if hist_stats.get("nested_extractions_after_insertion"):
        classes.append("nested_extraction_after_a_hook_inserted_a_module")
    if hist_stats.get("extract_after_insertion_by_glue"):
        classes.append("extraction_after_a_glue_function_inserted_a_glue_bearing_module")
    out.note_case(case, (nrem >= 1 and next_ >= 2) or hist_stats.get("extract_after_insertion_by_glue", 0) > 0,
                  classes=sorted(set(classes)), n_eval=len(interps))
    return viols


def check_schedule(ws, interps, case, out):
    viols = []
    nontrivial = False
    for interp in interps:
        try:
            res = ws[interp].request(dict(case, op="glue.schedule"))
        except WorkerDied as ex:
            viols.append({"desc": "interpreter %s died (exit %r)" % (interp, ex.returncode), "interp": interp})
            continue
        out.per_interp[interp] += 1
        for k, v in res["stats"].items():
            out.extra["schedule." + k] = out.extra.get("schedule." + k, 0) + v
        if res["stats"]["second_thread_passed_fastpath_during_scan"]:
            nontrivial = True
        if res["obs"]:
            viols.append({"desc": "%s on %s: %r" % (res["obs"][0]["kind"], interp, res["obs"][0]), "interp": interp})
    out.note_case(case, nontrivial, classes=["schedule", "threads.%d" % case["nthreads"]], n_eval=len(interps))
    return viols


REENTRANT = ["glue_extracts", "warning_hook_extracts"]


def check_reentrant(interps, variant, out):
    """in workers of their own: a deadlock leaves the process useless"""
    viols = []
    case = {"reentrant": variant}
    for interp in interps:
        with WorkerSet([interp], hooks=True) as ws:
            for _rep in range(2):
                try:
                    res = ws[interp].request({"op": "glue.reentrant", "variant": variant}, timeout=120)
                except WorkerDied as ex:
                    viols.append({"desc": "on %s: %s" % (interp, ex.returncode), "interp": interp})
                    break
                out.per_interp[interp] += 1
                if res["obs"]:
                    viols.append({"desc": "%s on %s: %r" % (res["obs"][0]["kind"], interp, res["obs"][0]), "interp": interp})
                    break
    out.note_case(case, True, classes=["extraction_started_while_this_thread_installs_glue." + variant], n_eval=2 * len(interps))
    return viols


def shard(arg):
    out = Outcome()
    interps = arg["interps"]
    for variant in arg.get("reentrant", []):
        for v in check_reentrant(interps, variant, out):
            out.violation(v["desc"], {"reentrant": variant}, v["interp"])
    if out.violations:
        return out
    with WorkerSet(interps, hooks=True) as ws:
        for fixed in (["lazyboth", "alias"] if arg.get("lazyboth") else []):
            case = {fixed: True}
            for interp in interps:
                for _rep in range(2):
                    try:
                        res = ws[interp].request({"op": "glue." + fixed})
                    except WorkerDied as ex:
                        out.violation("interpreter %s died (exit %r)" % (interp, ex.returncode), case, interp)
                        break
                    out.per_interp[interp] += 1
                    if res["obs"]:
                        out.violation("%s on %s: %r" % (res["obs"][0]["kind"], interp, res["obs"][0]), case, interp)
                        break
            out.note_case(case, True, classes=[{"lazyboth": "lazily_imported_module_with_both_kinds_of_glue",
                                                "alias": "module_with_both_kinds_of_glue_under_two_names"}[fixed]],
                          n_eval=2 * len(interps))
        if out.violations:
            return out
        fail = hyp_search(st.one_of(histories(), histories(), reuse_histories()), lambda c: check_history(ws, interps, c, out, arg["open"]), seed=arg["seed"],
                          max_examples=arg["n"], shrink=arg["shrink"])
        if fail:
            v = fail["violations"][0]
            out.violation(v["desc"], fail["case"], v["interp"], flaky=fail["flaky"])
        else:
            fail = hyp_search(schedules(), lambda c: check_schedule(ws, interps, c, out), seed=arg["seed"] + 1,
                              max_examples=arg["n_sched"], shrink=arg["shrink"])
            if fail:
                v = fail["violations"][0]
                out.violation(v["desc"], fail["case"], v["interp"], flaky=fail["flaky"])
    return out


def run(ctx):
    nshards = ctx.pick(8, 16)
    args = [{"interps": ALL, "seed": ctx.shard_seed(i), "n": ctx.pick(480, 48000) // nshards,
             "n_sched": ctx.pick(240, 16000) // nshards, "shrink": not ctx.quick, "open": sorted(ctx.open_findings),
             "reentrant": REENTRANT[i:i + 1], "lazyboth": i == 2}
            for i in range(nshards)]
    out = run_shards("checks.c17", "shard", args)
    out.extra["interpreters"] = ALL
    return out


def replay(ctx, data):
    out = Outcome()
    interps = [data["interp"]] if data.get("interp") in ALL else ALL
    case = data["case"]
    if "lazyboth" in case or "alias" in case:
        with WorkerSet(interps, hooks=True) as ws:
            for interp in interps:
                res = ws[interp].request({"op": "glue.lazyboth" if "lazyboth" in case else "glue.alias"})
                out.note_case(case, True)
                if res["obs"]:
                    out.violation("%s on %s: %r" % (res["obs"][0]["kind"], interp, res["obs"][0]), case, interp)
        return out
    if "reentrant" in case:
        for v in check_reentrant(interps, case["reentrant"], out):
            out.violation(v["desc"], case, v["interp"])
        return out
    with WorkerSet(interps, hooks=True) as ws:
        vs = check_schedule(ws, interps, case, out) if "nthreads" in case else check_history(
            ws, interps, case, out, sorted(ctx.open_findings))
        for v in vs:
            out.violation(v["desc"], case, v["interp"])
    return out
