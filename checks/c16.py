"""C16 - Frame.origin and extract_outermost keep their documented contracts."""
from hypothesis import strategies as st

from checks import c03, c10
from vlib import chainstrat
from vlib.driver import Outcome, run_shards
from vlib.hyp import hyp_search
from vlib.workers import ALL, WorkerDied, WorkerSet

PROPERTY = "C16"
LEVEL = "exploration"
RULE = ("(a) Every frame of every G2 chain (the C03 program space: depth 0..6 over await / yield from / __await__ objects / "
        "async-generator asend, anext, athrow, aclose, async for; 4 kinds of outermost object), extracted suspended AND from "
        "inside while the whole chain is running; (b) custom stack-item trees (G3) with raw frames, with suspended generator / coroutine / async-generator OBJECTS whose frames carry elaborate_frame results that replace / insert sub-trees or further such objects, without frames, and with a "
        "failing unwrap hook. CPython 3.9-3.12. Oracle: for each Frame with origin not None, weakref.ref(origin) works and "
        "extract_outermost(origin).pyframe is that frame; each frame owned by a suspended coroutine/generator/async generator "
        "(ownership recorded by the builder) has that object as origin; extract_outermost(x) equals extract(x).frames[0] "
        "(frame object, line, contexts, flags, origin) and raises when there are no frames, with the recorded error when there "
        "was one. Non-trivial: chain with >= 3 frames and >= 1 non-coroutine link (the running-from-inside observation is part "
        "of every chain case), or an item tree whose unwrap fails / yields no frame; distinct = distinct IR.")
ASSUMPTIONS = [
    "thread and greenlet targets are covered by the extract_outermost comparison inside C07 / C15's harnesses, not here",
]


def nontrivial(ir):
    return len(ir["links"]) >= 2 and any(k != "await_coro" for k, _ in ir["links"])


def item_trees():
    leaf_u = st.sampled_from(["none", "empty", "raise"])

    def node(children):
        # "GEN": a suspended generator / coroutine / async generator OBJECT whose frame may carry an elaborate_frame
        # result that redirects the trace (replace / bare replace / insert) into a sub-tree or another such object
        gen = st.one_of(st.just(["none"]), st.just(["none"]),
                        st.tuples(st.sampled_from(["replace", "replace1", "insert", "insert"]),
                                  st.one_of(children, st.just("GEN"))).map(list))
        hid = st.sampled_from([False, False, True])
        elem = st.one_of(st.just("FRAME"), st.tuples(gen, hid).map(lambda p: {"gen": p[0], "hide": p[1]}),
                         st.tuples(gen, hid).map(lambda p: {"gen": p[0], "hide": p[1]}), children, st.none())
        return st.fixed_dictionaries({"u": st.sampled_from(["tuple", "list", "iter", "one"]),
                                      "elems": st.lists(elem, min_size=0, max_size=3)})
    base = st.one_of(leaf_u.map(lambda u: {"u": u, "elems": []}),
                     st.lists(st.sampled_from(["FRAME", {"gen": ["none"]}, {"gen": ["replace1", "GEN"]},
                                               {"gen": ["insert", "GEN"]}, {"gen": ["none"], "hide": True}, None,
                                               {"u": "raise", "elems": []}]), min_size=0, max_size=3).map(
                         lambda xs: {"u": "tuple", "elems": xs}))
    # frameless trees in which several items fail to unwrap (extract records a group; extract_outermost re-raises it)
    fl_leaf = st.sampled_from(["raise", "raise", "none", "empty"]).map(lambda u: {"u": u, "elems": []})
    fl_node = st.fixed_dictionaries({"u": st.sampled_from(["tuple", "list", "iter"]),
                                     "elems": st.lists(st.one_of(fl_leaf, st.none()), min_size=2, max_size=4)})
    fl_tree = st.fixed_dictionaries({"u": st.sampled_from(["tuple", "list", "iter"]),
                                     "elems": st.lists(st.one_of(fl_leaf, fl_node), min_size=1, max_size=3)})
    # one (possibly hidden) frame plus failing items around it: everything extract() may adjust on "the" frame of such a
    # stack must be adjusted by extract_outermost() too
    one = st.sampled_from([{"gen": ["none"], "hide": True}, {"gen": ["none"], "hide": False}, "FRAME"])
    bad = st.sampled_from([{"u": "raise", "elems": []}, {"u": "none", "elems": []}, None])
    single = st.tuples(st.lists(bad, max_size=2), one, st.lists(bad, max_size=2), st.sampled_from(["tuple", "list", "iter"])).map(
        lambda p: {"u": p[3], "elems": p[0] + [p[1]] + p[2]})
    return st.one_of(st.recursive(base, node, max_leaves=8), st.recursive(base, node, max_leaves=8), fl_node, fl_tree, single)


def number_items(shape):
    ctr = {"f": 0, "i": 0, "g": 0}
    elab16 = {}

    def gen(e, hide=False):
        if ctr["g"] >= 24:
            return None
        idx = ctr["g"]
        ctr["g"] += 1
        if e[0] != "none":
            sub = gen(["none"]) if e[1] == "GEN" else walk(e[1])
            if sub is not None:
                elab16[str(idx)] = [e[0], [sub]]
        if hide:
            elab16[str(idx)] = elab16.get(str(idx), ["none"]) + ["hidden"]
        return {"g": idx}

    def walk(s):
        ctr["i"] += 1
        name = ctr["i"]
        if s["u"] in ("none", "raise"):
            return {"name": name, "u": s["u"], "ch": []}
        ch = []
        for e in s["elems"]:
            if e is None:
                ch.append(None)
            elif e == "FRAME":
                if ctr["f"] < 40:
                    ch.append({"f": ctr["f"]})
                    ctr["f"] += 1
            elif "gen" in e:
                n = gen(e["gen"], e.get("hide", False))
                if n is not None:
                    ch.append(n)
            else:
                ch.append(walk(e))
        u = s["u"]
        if not [c for c in ch if c is not None] or u == "empty":
            return {"name": name, "u": "empty", "ch": []}
        if u == "one" and len(ch) != 1:
            u = "tuple"
        return {"name": name, "u": u, "ch": ch}

    root = walk(shape)
    return {"root": root, "elab16": elab16}


def check_items(ws, interps, case, out):
    viols = []
    info = {}
    for interp in interps:
        try:
            res = ws[interp].request({"op": "hooks.c16", "root": case["root"], "elab16": case.get("elab16")})
        except WorkerDied as ex:
            viols.append({"desc": "interpreter %s died (exit %r)" % (interp, ex.returncode), "interp": interp})
            continue
        out.per_interp[interp] += 1
        info = res["stats"]
        if res["obs"]:
            viols.append({"desc": "%s on %s: %r" % (res["obs"][0]["kind"], interp, res["obs"][0]), "interp": interp})
    classes = ["items", "items.frames" if info.get("frames") else "items.no_frames"]
    if info.get("error"):
        classes.append("items.unwrap_error")
    if info.get("owned"):
        classes.append("items.suspended_object")
    if info.get("owned_after_redirect"):
        classes.append("items.suspended_object_reached_through_elaborate_frame_redirect")
    if info.get("outermost_reraised_group"):
        classes.append("items.no_frames_and_several_unwrap_errors")
    out.note_case(case, (not info.get("frames")) or info.get("error") or info.get("owned_after_redirect"),
                  classes=classes, n_eval=len(interps))
    return viols


def check_chain(ws, interps, ir, out):
    viols = []
    for interp in interps:
        try:
            res = ws[interp].request({"op": "chains.c16", "ir": ir})
        except WorkerDied as ex:
            viols.append({"desc": "interpreter %s died (exit %r)" % (interp, ex.returncode), "interp": interp})
            continue
        out.per_interp[interp] += 1
        for k, v in res["stats"].items():
            out.extra["obs." + k] = out.extra.get("obs." + k, 0) + v
        if res["obs"]:
            viols.append({"desc": "%s on %s: %r" % (res["obs"][0]["kind"], interp, res["obs"][0]), "interp": interp,
                          "obs": res["obs"][:5]})
    out.note_case(ir, nontrivial(ir), classes=sorted(chainstrat.classes(ir)) + ["chain"], n_eval=len(interps))
    return viols


def shard(arg):
    out = Outcome()
    interps = arg["interps"]
    with WorkerSet(interps, hooks=False) as ws:
        fail = hyp_search(chainstrat.chains(), lambda ir: check_chain(ws, interps, ir, out),
                          seed=arg["seed"], max_examples=arg["n"], shrink=arg["shrink"])
        if fail:
            v = fail["violations"][0]
            out.violation(v["desc"], fail["case"], v["interp"], obs=v.get("obs"), flaky=fail["flaky"])
        if not out.violations:
            fail = hyp_search(item_trees().map(number_items), lambda c: check_items(ws, interps, c, out),
                              seed=arg["seed"] + 1, max_examples=arg["n_items"], shrink=arg["shrink"])
            if fail:
                v = fail["violations"][0]
                out.violation(v["desc"], fail["case"], v["interp"], flaky=fail["flaky"])
    return out


def run_regress_sequences(out):
    """Saved failing histories: each is a list of chain cases run in order in a FRESH worker (the F9 crash
    depended on interpreter-internal state built up by the preceding cases)."""
    import glob
    import json
    import os
    from vlib.driver import VERIF
    for path in sorted(glob.glob(os.path.join(VERIF, "regress", "c16_*sequence.json"))):
        seq = json.load(open(path))
        interp = seq["interp"]
        with WorkerSet([interp], hooks=False) as ws:
            for ir in seq["cases"]:
                try:
                    res = ws[interp].request({"op": seq["op"], "ir": ir})
                except WorkerDied as ex:
                    out.violation("regression sequence %s: interpreter %s died (exit %r) while extracting from inside a "
                                  "running chain" % (os.path.basename(path), interp, ex.returncode),
                                  {"sequence": seq["cases"], "died_at": ir}, interp, origin="regress")
                    break
                out.per_interp[interp] += 1
                out.evaluations += 1
                if res["obs"]:
                    out.violation("regression sequence %s: %r" % (os.path.basename(path), res["obs"][0]), ir, interp)
        out.hist["regress_sequences"] += 1


def run(ctx):
    nshards = ctx.pick(8, 16)
    args = [{"interps": ALL, "seed": ctx.shard_seed(i), "n": ctx.pick(480, 32000) // nshards,
             "n_items": ctx.pick(240, 16000) // nshards, "shrink": not ctx.quick} for i in range(nshards)]
    out = run_shards("checks.c16", "shard", args)
    run_regress_sequences(out)
    out.extra["interpreters"] = ALL
    return out


def replay(ctx, data):
    out = Outcome()
    interps = [data["interp"]] if data.get("interp") in ALL else ALL
    case = data["case"]
    if "sequence" in case:
        run_regress_sequences(out)
        out.note_case(case, True)
        return out
    with WorkerSet(interps, hooks=False) as ws:
        vs = check_items(ws, interps, case, out) if "root" in case else check_chain(ws, interps, case, out)
        for v in vs:
            out.violation(v["desc"], case, v["interp"], obs=v.get("obs"))
    return out
