"""C01 - contexts of a suspended frame are exactly the entered-but-not-exited managers."""
from vlib import g1check

PROPERTY = "C01"
LEVEL = "exploration"
RULE = ("(Module-level coroutine code - top-level await - evaluated with a dict and with a bare item-access namespace, observed inside __aenter__, in the body, inside __aexit__ and after: exact, no warning.) (First use near the recursion limit: in a process of its own per depth, the first extraction is made 12..56 frames under the limit; afterwards an ordinary extraction of a frame that keeps a never-entered manager's exit method in a local is exact, with varname and start_line, and warns about nothing.) Also G2 await / yield-from / async-generator chains in which some frames hold managers open (coroutine, generator and async-generator frames reached through other frames: await, asend, __anext__, async for, yield from), every frame of the extracted stack listing exactly its own open managers (trickery mode). "
        "Also a leg over managers the harness cannot instrument: linear nests (1-4 with / async with statements, 1-3 items; a third of the items enter the manager object of an earlier item again - re-entrant / reusable managers, the same object active in two blocks of one frame - and async items may be managers whose __aexit__ suspends, giving observation points with an exiting context) of standard-library managers (and, in trickery mode, a MagicMock used as a manager, and a type whose __exit__ is a callable object whose __getattr__ raises RuntimeError: the exit callable is no bound method, so its context may have obj None, nothing else may suffer), seven kinds of them implemented in C (threading.Lock / RLock, StringIO, BytesIO, memoryview, decimal.localcontext, file objects), the others in Python (nullcontext, suppress, closing, ExitStack, Condition, Semaphore, redirect_stdout, AsyncExitStack, aclosing), observed at every suspension point in trickery mode against the statically known active set (identity, order, is_async, varname). "
        "Programs (a quarter of them preceded by ~1200 / ~9600 / ~18000 instructions of straight-line code, so that jump arguments and exception-table entries need two and three bytes): Hypothesis-generated with-programs (G1: generator / coroutine / async generator bodies over "
        "with / async with (1-4 items, 16 target forms, 3 layouts), try/except/else/finally, for, while, if, match, "
        "return/return-const/return-value/break/continue/raise, swallowing and raising managers, managers whose "
        "__aenter__/__aexit__ suspend), plus a systematic table of exit shapes (kind x sync/async x nesting shape x "
        "place x how the body ends x branch x swallow); each driven by a generated send/throw schedule and observed "
        "with extract(obj) and lowlevel.contexts_active_in_frame at EVERY suspension, on CPython 3.9/3.10/3.11/3.12. "
        "Oracle: a shadow stack maintained by the managers' own __enter__/__exit__ code. Static differential leg (3.10-3.12): "
        "for every __exit__/__aexit__ call site in the standard library of the interpreter (inlined normal-path sequences, "
        "their awaiting positions, WITH_EXCEPT_START handlers; a rotating 1/6 of the files in the quick tier, all in the "
        "thorough tier) currently_exiting_context must name the with block whose line the compiler's line table gives the call. A program is non-trivial "
        "when at least one suspended observation had a non-empty shadow stack; distinct = distinct IR (content hash).")
ASSUMPTIONS = [
    "the shadow stack (append at the end of __enter__/__aenter__, mark exiting at the start of __exit__/__aexit__, "
    "pop in a finally) is the ground truth for 'entered but not exited'",
    "managers are class-based; generator-based managers and exit stacks are C09's",
    "PyPy and CPython < 3.9 / >= 3.13 are outside the quantifier",
]

CFG = {
    "module": "checks.c01",
    "modes": ["susp"],
    "prog_kinds": ["gen", "coro", "agen"],
    "kinds_violation": ["susp."],
}


def classify(prog, stats, feats):
    classes = set()
    if stats.get("susp.nonempty"):
        classes.add("obs.nonempty_shadow")
    if stats.get("susp.exiting"):
        classes.add("obs.exiting")
        if "body_ends_in_jump_or_compound" in feats:
            classes.add("obs.exiting+body_ends_in_jump_or_compound")
    if stats.get("susp.exiting_exc_path"):
        classes.add("obs.exiting_on_exception_path")
    if stats.get("susp.in_aenter"):
        classes.add("obs.inside_aenter")
    if stats.get("susp.ge2"):
        classes.add("obs.two_or_more_active")
    return bool(stats.get("susp.nonempty")), classes


def run(ctx):
    out = g1check.run(ctx, CFG, quick_n=640, thorough_n=60000, quick_table=100000, quick_shards=16)
    from vlib import staticleg
    staticleg.run(ctx, out, "static.exits", ["3.10", "3.11", "3.12"])
    from vlib import cmgrleg
    cmgrleg.run(ctx, out, "trick.")
    from vlib import chainctxleg
    chainctxleg.run(ctx, out, "trick.")
    near_limit(out)
    bare_namespace(out)
    return out


def bare_namespace(out):
    from vlib.workers import ALL, WorkerDied, WorkerSet
    case = {"toplevel_await_in_bare_namespace": True}
    with WorkerSet(ALL, hooks=False) as ws:
        for interp in ALL:
            try:
                res = ws[interp].request({"op": "modes.bare_namespace"})
            except WorkerDied as ex:
                out.violation("interpreter %s died (exit %r)" % (interp, ex.returncode), case, interp)
                continue
            out.per_interp[interp] += 1
            if res["obs"]:
                out.violation("%s on %s: %r" % (res["obs"][0]["kind"], interp, res["obs"][0]), case, interp)
    out.note_case(case, True, classes=["module_level_coroutine_in_a_non_dict_namespace"], n_eval=8 * len(ALL))


def near_limit(out, interps=None):
    """the first use of the library in auto-detection state made 8..70 frames under the recursion limit"""
    from vlib.workers import ALL, WorkerDied, WorkerSet
    case = {"first_use_near_recursion_limit": True}
    interps = interps or ALL
    # (a process of its own for every depth: what the first use needs - modules imported on demand, the self-test - is
    # only needed once)
    heads = list(range(12, 60, 4))
    for interp in interps:
        for h in heads:
            with WorkerSet([interp], hooks=False) as ws:
                try:
                    res = ws[interp].request({"op": "modes.near_limit", "headrooms": [h]}, timeout=300)
                except WorkerDied as ex:
                    out.violation("interpreter %s died (exit %r)" % (interp, ex.returncode), dict(case, headroom=h), interp)
                    break
            out.per_interp[interp] += 1
            for k, v in res["stats"].items():
                out.extra["near_limit." + k] = out.extra.get("near_limit." + k, 0) + v
            if res["obs"]:
                out.violation("%s on %s: %r" % (res["obs"][0]["kind"], interp, res["obs"][0]), dict(case, headroom=h), interp)
                break
    out.note_case(case, True, classes=["first_use_near_the_recursion_limit"], n_eval=len(heads) * len(interps))


def replay(ctx, data):
    if data.get("case", {}).get("toplevel_await_in_bare_namespace"):
        from vlib.driver import Outcome
        out = Outcome()
        bare_namespace(out)
        return out
    if data.get("case", {}).get("first_use_near_recursion_limit"):
        from vlib.driver import Outcome
        out = Outcome()
        near_limit(out)
        return out
    if "chain_contexts" in data.get("case", {}):
        from vlib import chainctxleg
        return chainctxleg.replay(ctx, data, "trick.")
    if "stdlib_managers" in data.get("case", {}):
        from vlib import cmgrleg
        return cmgrleg.replay(ctx, data, "trick.")
    return g1check.replay(ctx, CFG, data)
