"""C02 - contexts of a frame running on the calling thread are exact, also mid-enter/exit."""
from vlib import g1check

PROPERTY = "C02"
LEVEL = "exploration"
RULE = ("(Also between calls: an opcode-level trace function inspects the frame whenever its next instruction is a backward jump - the back edge of a loop, where signals are handled and threads switched.) (Among the class managers: one whose plain-def __aexit__ probes and then returns another manager's __aexit__ coroutine - the exit CALL has returned while the exit is still awaited.) Same generated program space as C01 (G1 with-programs + the systematic exit-shape table), for plain functions, "
        "generators, coroutines and async generators; the frame under test is inspected WHILE RUNNING through "
        "extract_since(frame) called from nested code: from probe calls in the body and from inside every "
        "__enter__/__exit__/__aenter__/__aexit__ (before and after their own suspension), on CPython 3.9-3.12. Oracle: the "
        "managers' shadow stack at that instant (from inside enter code the manager is absent; from inside exit code it is "
        "last, is_exiting, obj is the manager), no warning, no error, first frame is the frame under test. A program is "
        "non-trivial when at least one probe observation was made from inside an exit call; distinct = distinct IR.")
ASSUMPTIONS = [
    "the shadow stack maintained by the harness managers is the ground truth",
    "the probing call is a nested Python call, so the inspected frame is an ancestor of the caller on the same thread",
]

CFG = {
    "module": "checks.c02",
    "modes": ["run", "opjump"],
    "prog_kinds": ["gen", "coro", "agen", "func"],
    "kinds_violation": ["run."],
}


def classify(prog, stats, feats):
    classes = set()
    for k in ("run.from_exit", "run.from_aexit", "run.from_exit_exc", "run.from_enter", "run.nonempty", "run.ge2"):
        if stats.get(k):
            classes.add("obs." + k)
    if stats.get("run.from_exit") and "body_ends_in_jump_or_compound" in feats:
        classes.add("obs.from_exit+body_ends_in_jump_or_compound")
    return bool(stats.get("run.from_exit")), classes


def run(ctx):
    return g1check.run(ctx, CFG, quick_n=480, thorough_n=60000, quick_table=2200, quick_shards=16)


def replay(ctx, data):
    return g1check.replay(ctx, CFG, data)
