"""C02 - contexts of a frame running on the calling thread are exact, also mid-enter/exit."""
from vlib import g1check

PROPERTY = "C02"
LEVEL = "exploration"
RULE = ("(Fixed scenario: a SIGALRM handler extracts the interrupted stack 400 / 6000 times, timers swept over a loop of empty with / async with statements: whatever instant is hit, every entry's obj is the manager or None - never the handler's own argument.) (Fixed scenario: 6000 / 60000 inspections of the calling thread's own frames, two managers active, while another thread does nothing but walk those frames through sys._current_frames() with a switch interval of 10 us: every result exact, no warning.) (Also between calls: an opcode-level trace function inspects the frame whenever its next instruction is a backward jump - the back edge of a loop, where signals are handled and threads switched.) (Among the class managers: one whose plain-def __aexit__ probes and then returns another manager's __aexit__ coroutine - the exit CALL has returned while the exit is still awaited.) Same generated program space as C01 (G1 with-programs + the systematic exit-shape table), for plain functions, "
        "generators, coroutines and async generators; the frame under test is inspected WHILE RUNNING through "
        "extract_since(frame) called from nested code: from probe calls in the body and from inside every "
        "__enter__/__exit__/__aenter__/__aexit__ (before and after their own suspension), on CPython 3.9-3.12. Oracle: the "
        "managers' shadow stack at that instant (from inside enter code the manager is absent; from inside exit code it is "
        "last, is_exiting, obj is the manager), no warning, no error, first frame is the frame under test. A program is "
        "non-trivial when at least one probe observation was made from inside an exit call; distinct = distinct IR.")
ASSUMPTIONS = [
    "the shadow stack maintained by the harness managers is the ground truth",
    "the probing call is a nested Python call, so the inspected frame is an ancestor of the caller on the same thread",
]

CFG = {
    "module": "checks.c02",
    "modes": ["run", "opjump"],
    "prog_kinds": ["gen", "coro", "agen", "func"],
    "kinds_violation": ["run."],
}


def classify(prog, stats, feats):
    classes = set()
    for k in ("run.from_exit", "run.from_aexit", "run.from_exit_exc", "run.from_enter", "run.nonempty", "run.ge2"):
        if stats.get(k):
            classes.add("obs." + k)
    if stats.get("run.from_exit") and "body_ends_in_jump_or_compound" in feats:
        classes.add("obs.from_exit+body_ends_in_jump_or_compound")
    return bool(stats.get("run.from_exit")), classes


def sampled(out, n):
    """fixed scenario: the calling thread's own frames, inspected while another thread keeps looking at them as well"""
    from vlib.workers import ALL, WorkerDied, WorkerSet
    case = {"sampled_by_another_thread": True}
    with WorkerSet(ALL, hooks=False) as ws:
        for interp in ALL:
            try:
                # (the cross-checks that can race this way are those of the 3.9 / 3.10 inspector)
                res = ws[interp].request({"op": "modes.sampled", "n": n if interp in ("3.9", "3.10") else n // 4}, timeout=900)
            except WorkerDied as ex:
                out.violation("interpreter %s died (exit %r)" % (interp, ex.returncode), case, interp)
                continue
            out.per_interp[interp] += 1
            if res["obs"]:
                out.violation("%s on %s: %r" % (res["obs"][0]["kind"], interp, res["obs"][0]), case, interp)
    out.note_case(case, True, classes=["sampled_by_another_thread"], n_eval=n * len(ALL))


def signal_after_exit(out, n):
    """fixed scenario: a SIGALRM handler that extracts the interrupted stack, timers swept over a loop of empty sync and
    async with statements - every entry's obj is the manager or None"""
    from vlib.workers import ALL, WorkerDied, WorkerSet
    case = {"signal_handler_between_with_instructions": True}
    with WorkerSet(ALL, hooks=False) as ws:
        for interp in ALL:
            try:
                res = ws[interp].request({"op": "modes.signal_after_exit", "n": n}, timeout=900)
            except WorkerDied as ex:
                out.violation("interpreter %s died (exit %r)" % (interp, ex.returncode), case, interp)
                continue
            out.per_interp[interp] += 1
            for k, v in res["stats"].items():
                out.extra["signal_handler." + k] = out.extra.get("signal_handler." + k, 0) + v
            if res["obs"]:
                out.violation("%s on %s: %r" % (res["obs"][0]["kind"], interp, res["obs"][0]), case, interp)
    out.note_case(case, True, classes=["signal_handler_between_with_instructions"], n_eval=n * len(ALL))


def run(ctx):
    out = g1check.run(ctx, CFG, quick_n=480, thorough_n=60000, quick_table=2200, quick_shards=16)
    sampled(out, ctx.pick(6000, 60000))
    signal_after_exit(out, ctx.pick(400, 6000))
    return out


def replay(ctx, data):
    if data.get("case", {}).get("signal_handler_between_with_instructions"):
        from vlib.driver import Outcome
        out = Outcome()
        signal_after_exit(out, 400)
        return out
    if data.get("case", {}).get("sampled_by_another_thread"):
        from vlib.driver import Outcome
        out = Outcome()
        sampled(out, 6000)
        return out
    return g1check.replay(ctx, CFG, data)
