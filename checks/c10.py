"""C10 - frame hooks: unwrap to a fixpoint; elaborate_frame edits only the inward rest.

Oracle: an independent reference interpretation of the documented rules written with *scopes* (no queues,
no depth counters), computed in the driver; the real result comes from a worker running the working tree.
"""
from hypothesis import strategies as st

from vlib.driver import Outcome, run_shards
from vlib.hyp import hyp_search
from vlib.workers import ALL, WorkerDied, WorkerSet

PROPERTY = "C10"
LEVEL = "exploration"
RULE = ("(Insertion-invariance, metamorphic, over arbitrary nestings with None / PRUNE / [] hooks: a hook-less frame answering (X, next_inner) - X an item unwrapping to nothing, a new frame as frame object or through an item, two frames; the new frame answering None or PRUNE - yields the old result with X's frames added right after it and nothing else changed.) Item trees over synthetic stack-item types (unwrap result: None / single item / tuple / list / collections.deque / @yields_frames "
        "iterator / empty) whose frames come from a pool of 64 real frames with distinct code objects, each with a "
        "table-driven elaborate_frame result (None / PRUNE / [] / replacement by item(s) / raw frame + item / insertion "
        "(item, next_inner) as list / tuple / deque / with an item that unwraps to nothing / bare next_inner), generated recursively by Hypothesis so that replacements and insertions "
        "bring sub-trees whose frames have hooks of their own. Balanced space: 2-4 wrappers side by side, each unwrapping directly to 1-3 frames (all equally deep; any simple hook or single-frame replacement; in a third of them an irreducible item may end any wrapper, not only the last - then, if no frame after it has a hook, the frames outward of it are compared as usual and of the rest only conservation is asserted: every frame and irreducible item still in Stack.frames or Stack.leaf). Core space: right-nested trees with single-item insertions "
        "(any hook anywhere). Order space: arbitrary nestings, None elements, multi-item and raw-frame insertions, with only "
        "None/next_inner/insert hooks. Equivalence space (metamorphic): arbitrary nestings - also those whose exact outcome the documentation leaves open - with None / PRUNE / [] hooks, in which one hook-less frame answers next_inner, [next_inner] or (next_inner,): the result must equal the one with None. Plus the fixpoint-guard family (also 50 / 120 / 300 sibling items that unwrap to nothing followed by a frame: wide is not deep, no error): self-returning item, 2-cycle, cycles that branch (the item itself twice as tuple / list / iterator; a 2-cycle with a doubling member), wrapper chains of "
        "length 0..90 (must succeed) and >= 150 (must end with the 'unwrapped more than 100 times' error). A hook that answers with a list hands out its own stored list object, which must come back unchanged, and every fault-free tree is extracted a second time with the same result. Executed on "
        "CPython 3.9-3.12. Oracle: reference scope model (frames and leaf equal, error is None). Non-trivial: >= 1 frame that "
        "appears in the result has a non-None elaborate result (guard family: chain length >= 2 or a cycle); distinct = distinct IR.")
ASSUMPTIONS = [
    "where the documentation does not determine the outcome (an irreducible item followed by frames; prunes issued from one "
    "of several inserted items, from a directly inserted raw frame or from the last frame of a non-final sub-sequence) no "
    "case is asserted: such cases are either not generated or detected by the model and skipped (counted as 'undefined'); "
    "for an irreducible item followed by frames none of which has a hook, conservation alone is asserted (the frames outward "
    "of it as usual; every other frame and irreducible item still present in Stack.frames or Stack.leaf)",
    "the exact no-progress threshold is not asserted, only: chains <= 90 succeed, chains >= 150 and cycles end in an error",
]

KMAX = 56
UNDEFINED = "UNDEFINED"


# ------------------------------------------------------------------------------------ strategies

# insert_empty: the insert form with an item that unwraps to nothing in front of next_inner - adds no frame, but goes
# through the whole "insert before the rest" path (which a bare next_inner, being documented as a no-op, does not)
# insert_none: (None, next_inner) - what the documented spelling `return (frame.pyframe.f_locals.get("thread"), next_inner)`
# gives when there is nothing to insert: None is no stack item, as in the results of unwrap_stackitem
SIMPLE_ELABS = [["none"]] * 6 + [["prune"], ["prune"], ["empty"], ["self"], ["insert_empty"], ["insert_empty"], ["insert_none"]]


def _seq(children, allow_leaf=True):
    """children: strategy for nested seq shapes (or None at the base)."""
    if children is None:
        elab = st.sampled_from(SIMPLE_ELABS)
        tail = st.sampled_from([None, None, "LEAF"] if allow_leaf else [None])
    else:
        elab = st.one_of(
            st.sampled_from(SIMPLE_ELABS), st.sampled_from(SIMPLE_ELABS),
            children.map(lambda s: ["replace", [s]]),
            children.map(lambda s: ["replace_tuple", [s]]),
            children.map(lambda s: ["replace", ["FRAME", s]]),
            children.map(lambda s: ["replace1", s]),
            st.just(["replace1", "FRAME"]),
            children.map(lambda s: ["insert", [s]]),
            children.map(lambda s: ["insert", [s]]),
            children.map(lambda s: ["insert_tuple", [s]]),
            children.map(lambda s: ["insert_deque", [s]]),
            children.map(lambda s: ["replace_deque", [s]]),
        )
        tail = st.one_of(st.none(), children, children, st.just("LEAF") if allow_leaf else st.none())
    return st.fixed_dictionaries({
        # "one" (a bare, unsequenced result) only applies to nodes with exactly one child, hence its weight
        "u": st.sampled_from(["tuple", "list", "iter", "deque", "one", "one", "one"]),
        "frames": st.lists(elab.map(lambda e: {"e": e}), min_size=0, max_size=3),
        "none_at": st.sampled_from([None, None, None, 0, 1, 2]),
        "tail": tail,
    })


def core_shapes():
    return st.recursive(_seq(None), lambda ch: _seq(ch), max_leaves=10)


def _order_node(children):
    elab = st.one_of(st.sampled_from([["none"]] * 4 + [["self"]]),
                     st.lists(st.one_of(children, st.just("FRAME")), min_size=1, max_size=3).map(lambda xs: ["insert", xs]))
    elem = st.one_of(elab.map(lambda e: {"e": e}), elab.map(lambda e: {"e": e}), children, st.none())
    return st.fixed_dictionaries({
        "u": st.sampled_from(["tuple", "list", "iter"]),
        "elems": st.lists(elem, min_size=0, max_size=4),
    })


def order_shapes():
    base = st.fixed_dictionaries({"u": st.sampled_from(["tuple", "list", "iter", "empty"]),
                                  "elems": st.lists(st.sampled_from([{"e": ["none"]}, {"e": ["self"]}, None]),
                                                    min_size=0, max_size=3)})
    return st.recursive(base, _order_node, max_leaves=12)


def balanced_shapes():
    """several wrappers side by side, each unwrapping to frames directly: every frame sits equally deep, so a prune or a
    replacement issued by any of them removes ALL the frames that follow, also those that come out of a later wrapper"""
    elab = st.sampled_from(SIMPLE_ELABS + [["replace", ["FRAME"]], ["replace1", "FRAME"], ["replace_tuple", ["FRAME"]]])
    group = st.fixed_dictionaries({"u": st.sampled_from(["tuple", "list", "iter", "one"]),
                                   "frames": st.lists(elab.map(lambda e: {"e": e}), min_size=1, max_size=3),
                                   "leaf": st.booleans()})
    # leaf_anywhere: an irreducible item may also end a group that is not the last one (frames follow it)
    return st.fixed_dictionaries({"u": st.sampled_from(["tuple", "list", "iter"]),
                                  "groups": st.lists(group, min_size=2, max_size=4),
                                  "leaf_anywhere": st.sampled_from([False, False, True])})


# ------------------------------------------------------------------------------------ numbering

class Numberer:
    def __init__(self):
        self.nf = 0
        self.ni = 0
        self.elab = {}

    def item_name(self):
        self.ni += 1
        return self.ni

    def frame(self, e):
        if self.nf >= KMAX:
            return None
        idx = self.nf
        self.nf += 1
        self.elab[str(idx)] = self.elab_of(e)
        return {"f": idx}

    def elab_of(self, e):
        k = e[0]
        if k in ("none", "prune", "empty", "self"):
            return [k]
        if k == "insert_empty":
            return ["insert", [{"name": self.item_name(), "u": "empty", "ch": []}]]
        if k == "insert_none":
            return ["insert", [None]]
        if self.nf >= KMAX - 8:
            return ["none"]
        if k in ("replace", "replace_tuple", "replace_deque", "insert", "insert_tuple", "insert_deque"):
            nodes = []
            for x in e[1]:
                n = self.frame(["none"]) if x == "FRAME" else (
                    self.order(x) if "elems" in x else self.core(x, allow_leaf=k.startswith("replace")))
                if n is not None:
                    nodes.append(n)
            return [k, nodes]
        if k == "replace1":
            n = self.frame(["none"]) if e[1] == "FRAME" else self.core(e[1], allow_leaf=True)
            if n is None:
                return ["none"]
            return [k, n]
        raise AssertionError(k)

    def core(self, s, allow_leaf=True):
        name = self.item_name()
        ch = []
        for fr in s["frames"]:
            n = self.frame(fr["e"])
            if n is not None:
                ch.append(n)
        if s.get("none_at") is not None and ch:
            ch.insert(min(s["none_at"], len(ch)), None)
        t = s.get("tail")
        if t == "LEAF":
            if allow_leaf:
                ch.append({"name": self.item_name(), "u": "none", "ch": []})
        elif t is not None:
            ch.append(self.core(t, allow_leaf))
        real = [c for c in ch if c is not None]
        u = s["u"]
        if not real:
            u, ch = "empty", []
        elif u == "one" and not (len(ch) == 1):
            u = "tuple"
        return {"name": name, "u": u, "ch": ch}

    def order(self, s):
        name = self.item_name()
        ch = []
        for el in s.get("elems", []):
            if el is None:
                ch.append(None)
            elif "e" in el:
                n = self.frame(el["e"])
                if n is not None:
                    ch.append(n)
            else:
                ch.append(self.order(el))
        u = s["u"]
        if u == "empty" or not ch:
            u, ch = "empty", []
        return {"name": name, "u": u, "ch": ch}


def make_case(space, shape):
    nb = Numberer()
    if space == "balanced":
        groups = []
        last = len(shape["groups"]) - 1
        for gi, g in enumerate(shape["groups"]):
            ch = [n for n in (nb.frame(fr["e"]) for fr in g["frames"]) if n is not None]
            if g.get("leaf") and (gi == last or shape.get("leaf_anywhere")):
                ch.append({"name": nb.item_name(), "u": "none", "ch": []})
            u = g["u"] if (g["u"] != "one" or len(ch) == 1) else "tuple"
            groups.append({"name": nb.item_name(), "u": u if ch else "empty", "ch": ch})
        return {"space": space, "root": {"name": nb.item_name(), "u": shape["u"], "ch": groups}, "elab": nb.elab}
    root = nb.core(shape) if space == "core" else nb.order(shape)
    return {"space": space, "root": root, "elab": nb.elab}


# ------------------------------------------------------------------------------------ reference model

def _expand(node, scope, out):
    if node is None:
        return
    if "f" in node:
        out.append(["F", node["f"], scope])
    elif node["u"] == "none":
        out.append(["L", node["name"], scope])
    else:
        for c in node["ch"]:
            _expand(c, scope, out)


def model(case):
    """Reference interpretation with scopes.  Returns (frames, leaf, info) or UNDEFINED."""
    elab = case["elab"]
    parent = {0: None}
    nscope = [0]

    def within(scope, sigma):
        while scope is not None:
            if scope == sigma:
                return True
            scope = parent[scope]
        return False

    q = []
    _expand(case["root"], 0, q)
    frames = []
    info = set()
    while q:
        if q[0][0] == "L":
            if any(x[0] == "F" for x in q):
                # Where the frames that follow an irreducible item end up is not determined by the documentation, but
                # "until only frames and leaves remain" is: if none of them has a hook, nothing may be lost.
                if all(elab.get(str(x[1]), ["none"])[0] == "none" for x in q if x[0] == "F"):
                    return ("PARTIAL", frames, [x[1] for x in q if x[0] == "F"], [x[1] for x in q if x[0] == "L"], info)
                return UNDEFINED
            leaves = [x[1] for x in q]
            return frames, (leaves if len(leaves) > 1 else leaves[0]), info
        _, idx, sc = q.pop(0)
        frames.append(idx)
        e = elab.get(str(idx), ["none"])
        k = e[0]
        if k == "none":
            continue
        info.add("elab." + k)
        if k == "self":
            if sc != 0:
                info.add("self_in_inserted_scope")
            continue
        if k in ("prune", "empty", "replace", "replace_tuple", "replace_deque", "replace1"):
            if sc != 0:
                info.add("prune_or_replace_inside_inserted_scope")
            if q and not within(q[0][2], sc) and sc != 0:
                info.add("prune_by_last_frame_of_inserted_scope")
            while q and within(q[0][2], sc):
                q.pop(0)
            if k != "prune" and k != "empty":
                new = []
                for n in (e[1] if k != "replace1" else [e[1]]):
                    _expand(n, sc, new)
                q = new + q
        elif k in ("insert", "insert_tuple", "insert_deque"):
            if not q:
                info.add("insert_on_innermost_frame")
            elif sc != 0 and not within(q[0][2], sc):
                info.add("insert_by_last_frame_of_inserted_scope")
            nscope[0] += 1
            s2 = nscope[0]
            parent[s2] = sc
            new = []
            for n in e[1]:
                _expand(n, s2, new)
            q = new + q
        else:
            raise AssertionError(k)
    return frames, None, info


def tree_classes(case):
    c = set()

    def walk(node):
        if node is None or "f" in node:
            return
        c.add("unwrap." + node["u"])
        if any(x is None for x in node["ch"]):
            c.add("unwrap.seq_with_None")
        for x in node["ch"]:
            walk(x)

    walk(case["root"])
    for e in case["elab"].values():
        if e[0] in ("replace", "replace_tuple", "replace_deque", "insert", "insert_tuple", "insert_deque"):
            for n in e[1]:
                walk(n)
        elif e[0] == "replace1":
            walk(e[1])
    return c


# ------------------------------------------------------------------------------------ guard family

def guard_cases():
    out = []
    for n in [0, 1, 2, 5, 50, 89, 90]:
        out.append({"guard": "chain", "n": n, "expect": "ok"})
    for n in [150, 151, 200, 400]:
        out.append({"guard": "chain", "n": n, "expect": "error"})
    out.append({"guard": "self", "expect": "error"})
    out.append({"guard": "cycle2", "expect": "error"})
    # cycles that pass through items unwrapping to nothing (in each of the empty forms) or to None elements
    for form in ("tuple", "list", "iter"):
        for pos in ("before", "after"):
            out.append({"guard": "cycle_with_empty", "form": form, "empty_at": pos, "expect": "error"})
    out.append({"guard": "cycle3_with_empty", "expect": "error"})
    # cycles that branch: each step yields the item itself twice / a 2-cycle whose one member yields the other twice
    for form in ("selfpair", "selfpair_list", "selfpair_iter"):
        out.append({"guard": "branching_self", "form": form, "expect": "error"})
    out.append({"guard": "branching_cycle2", "expect": "error"})
    out.append({"guard": "chain_then_tuple", "n": 60, "expect": "ok"})
    # wide, not deep: many items that each unwrap to nothing (finished generators, dead threads), then one that has a frame:
    # every step finishes an item, which is progress
    for n in (50, 120, 300):
        out.append({"guard": "wide_empties", "n": n, "expect": "ok"})
    out.append({"guard": "two_chains", "n": 80, "expect": "ok"})
    return out


def build_guard(g):
    """IR for a guard case; iterative (chains are long)."""
    kind = g["guard"]
    if kind == "chain":
        node = {"f": 0}
        for i in range(g["n"]):
            node = {"name": 1000 + i, "u": "one", "ch": [node]}
        if g["n"] == 0:
            node = {"name": 1, "u": "tuple", "ch": [node]}
        return {"root": node, "elab": {}}
    if kind == "self":
        return {"root": {"name": 1, "u": "self", "ch": []}, "elab": {}}
    if kind == "branching_self":
        return {"root": {"name": 1, "u": g["form"], "ch": []}, "elab": {}}
    if kind == "branching_cycle2":
        a1 = {"name": 1, "u": "cycle", "ch": []}
        b = {"name": 2, "u": "tuple", "ch": [a1, dict(a1)]}
        return {"root": {"name": 1, "u": "cycle", "ch": [b]}, "elab": {}}
    if kind == "cycle2":
        # A -> B -> A: B's child refers to A by name (realize() memoises by name)
        a = {"name": 1, "u": "cycle", "ch": [{"name": 2, "u": "cycle", "ch": [{"name": 1, "u": "cycle", "ch": []}]}]}
        return {"root": a, "elab": {}}
    if kind == "cycle_with_empty":
        # A -> (E, A) or (A, E) with E -> an empty tuple / list / iterator: never reaches a frame or a leaf
        e = {"name": 2, "u": "empty" if g["form"] == "tuple" else ("emptylist" if g["form"] == "list" else "emptyiter"), "ch": []}
        back = {"name": 1, "u": "tuple", "ch": []}
        ch = [e, back] if g["empty_at"] == "before" else [back, e]
        return {"root": {"name": 1, "u": g["form"], "ch": ch}, "elab": {}}
    if kind == "cycle3_with_empty":
        # A -> B ; B -> (E, None, C) ; C -> A
        a = {"name": 1, "u": "cycle", "ch": [{"name": 2, "u": "tuple", "ch": [
            {"name": 3, "u": "empty", "ch": []}, None, {"name": 4, "u": "cycle", "ch": [{"name": 1, "u": "cycle", "ch": []}]}]}]}
        return {"root": a, "elab": {}}
    if kind == "chain_then_tuple":
        node = {"name": 1, "u": "tuple", "ch": [{"f": 0}, {"f": 1}]}
        for i in range(g["n"]):
            node = {"name": 1000 + i, "u": "one", "ch": [node]}
        return {"root": node, "elab": {}}
    if kind == "wide_empties":
        ch = [{"name": 1000 + i, "u": "empty", "ch": []} for i in range(g["n"])] + [{"f": 0}]
        return {"root": {"name": 1, "u": "tuple", "ch": ch}, "elab": {}}
    if kind == "two_chains":
        # progress (a frame) between two chains of 80: the counter must reset
        inner = {"f": 1}
        for i in range(g["n"]):
            inner = {"name": 2000 + i, "u": "one", "ch": [inner]}
        node = {"name": 1, "u": "tuple", "ch": [{"f": 0}, inner]}
        for i in range(g["n"]):
            node = {"name": 1000 + i, "u": "one", "ch": [node]}
        return {"root": node, "elab": {}}
    raise AssertionError(kind)


def check_guard(ws, interps, g, out):
    ir = build_guard(g)
    viols = []
    for interp in interps:
        res = ws[interp].request({"op": "hooks.c10", "root": ir["root"], "elab": ir["elab"]})
        out.per_interp[interp] += 1
        if "raised" in res:
            viols.append({"desc": "guard %r on %s: extract raised %s" % (g, interp, res["raised"]), "interp": interp})
            continue
        if g["expect"] == "error":
            if not res["error"] or "more than 100 times" not in res["error"]:
                viols.append({"desc": "guard %r on %s: expected the unwrapping-limit error, got error=%r frames=%r" % (
                    g, interp, res["error"], res["frames"]), "interp": interp})
        else:
            exp = {"chain": [0], "chain_then_tuple": [0, 1], "two_chains": [0, 1], "wide_empties": [0]}[g["guard"]]
            if res["error"] is not None or res["frames"] != exp or res["leaf"] is not None:
                viols.append({"desc": "guard %r on %s: expected frames %r and no error, got %r" % (g, interp, exp, res),
                              "interp": interp})
    return viols


# ------------------------------------------------------------------------------------ check

def compare(case, ws, interps, out):
    exp = model(case)
    if exp == UNDEFINED:
        out.hist["undefined_by_docs_skipped"] += 1
        return []
    if exp[0] == "PARTIAL":
        return conserve(case, exp, ws, interps, out)
    frames, leaf, info = exp
    viols = []
    for interp in interps:
        try:
            res = ws[interp].request({"op": "hooks.c10", "root": case["root"], "elab": case["elab"]})
        except WorkerDied as ex:
            viols.append({"desc": "interpreter %s died (exit %r)" % (interp, ex.returncode), "interp": interp})
            continue
        out.per_interp[interp] += 1
        if "raised" in res:
            viols.append({"desc": "extract raised on %s: %s (model: frames=%r leaf=%r)" % (interp, res["raised"], frames, leaf),
                          "interp": interp})
        elif res["error"] is not None:
            viols.append({"desc": "Stack.error on %s: %s (model: frames=%r leaf=%r)" % (interp, res["error"], frames, leaf),
                          "interp": interp})
        elif res["frames"] != frames or res["leaf"] != leaf:
            viols.append({"desc": "frames/leaf differ from the reference interpretation on %s: got frames=%r leaf=%r, "
                                  "expected frames=%r leaf=%r [%s]" % (interp, res["frames"], res["leaf"], frames, leaf,
                                                                       ",".join(sorted(info))), "interp": interp})
        elif not res["root_ok"] or res["warnings"]:
            viols.append({"desc": "root/warnings on %s: %r" % (interp, res), "interp": interp})
        elif res.get("hook_result_modified") or res.get("second_extraction_differs"):
            viols.append({"desc": "a hook's own result object was modified / a second extraction of the same tree differs on %s: "
                                  "%r %r" % (interp, res.get("hook_result_modified"), res.get("second_extraction_differs")),
                          "interp": interp})
    nontrivial = any(case["elab"].get(str(i), ["none"])[0] != "none" for i in frames)
    classes = set(info) | tree_classes(case) | {"space." + case["space"]}
    out.note_case(case, nontrivial, classes=sorted(classes), n_eval=len(interps),
                  sample={"case": case, "expected_frames": frames, "expected_leaf": leaf})
    return viols


def conserve(case, exp, ws, interps, out):
    """an irreducible item followed by hook-less frames: the frames outward of it are determined; of the rest only that
    every frame and every irreducible item is still there (in Stack.frames or in Stack.leaf), irreducibles in order"""
    _, prefix, rest_frames, rest_leaves, info = exp
    viols = []
    for interp in interps:
        try:
            res = ws[interp].request({"op": "hooks.c10", "root": case["root"], "elab": case["elab"]})
        except WorkerDied as ex:
            viols.append({"desc": "interpreter %s died (exit %r)" % (interp, ex.returncode), "interp": interp})
            continue
        out.per_interp[interp] += 1
        if "raised" in res or res["error"] is not None:
            viols.append({"desc": "extract failed on %s: %r" % (interp, res.get("raised") or res["error"]), "interp": interp})
            continue
        leaf = res["leaf"] if isinstance(res["leaf"], list) else ([] if res["leaf"] is None else [res["leaf"]])
        in_leaf = [x["frame_as_leaf"] for x in leaf if isinstance(x, dict) and "frame_as_leaf" in x]
        names = [x for x in leaf if not isinstance(x, dict)]
        got_rest = res["frames"][len(prefix):] + in_leaf
        if res["frames"][:len(prefix)] != prefix or sorted(map(str, got_rest)) != sorted(map(str, rest_frames)) \
                or names != rest_leaves or any(isinstance(x, dict) and "other" in x for x in leaf):
            viols.append({"desc": "frames / irreducible items lost or invented on %s: got frames=%r leaf=%r; the frames outward "
                                  "of the first irreducible item are %r, and %r (frames) + %r (irreducible) must all remain"
                                  % (interp, res["frames"], res["leaf"], prefix, rest_frames, rest_leaves), "interp": interp})
    out.hist["irreducible_followed_by_frames.conservation_only"] += 1
    out.note_case(case, False, classes=sorted(set(info) | {"space." + case["space"], "irreducible_item_followed_by_frames"}),
                  n_eval=len(interps))
    return viols


def equiv_shapes():
    """arbitrary nestings (wrappers inside sequences, frames after sub-sequences) with simple hooks only; one hook-less frame
    is designated to answer with the documented spellings of 'no change'"""
    def node(children):
        elab = st.sampled_from([["none"]] * 5 + [["prune"], ["empty"]])
        elem = st.one_of(elab.map(lambda e: {"e": e}), elab.map(lambda e: {"e": e}), children)
        return st.fixed_dictionaries({"u": st.sampled_from(["tuple", "list", "iter"]), "elems": st.lists(elem, min_size=1, max_size=4)})
    base = st.fixed_dictionaries({"u": st.sampled_from(["tuple", "list", "iter"]),
                                  "elems": st.lists(st.sampled_from([{"e": ["none"]}, {"e": ["none"]}, {"e": ["prune"]}]),
                                                    min_size=1, max_size=3)})
    return st.tuples(st.recursive(base, node, max_leaves=10), st.integers(0, 50),
                     st.sampled_from(["self", "self_list", "self_tuple"]))


def equiv_check(shape, pick, form, ws, interps, out):
    """metamorphic: a hook that returns next_inner (bare, or as the only element of a sequence) is documented to be the same
    as returning None - whatever the other hooks do afterwards, in zones where the exact outcome is debatable too"""
    case = make_case("order", shape)
    plain = [k for k, e in sorted(case["elab"].items(), key=lambda kv: int(kv[0])) if e == ["none"]]
    if not plain:
        return []
    k = plain[pick % len(plain)]
    variant = {"space": "equiv", "root": case["root"], "elab": dict(case["elab"], **{k: [form]})}
    viols = []
    for interp in interps:
        try:
            a = ws[interp].request({"op": "hooks.c10", "root": case["root"], "elab": case["elab"]})
            b = ws[interp].request({"op": "hooks.c10", "root": variant["root"], "elab": variant["elab"]})
        except WorkerDied as ex:
            viols.append({"desc": "interpreter %s died (exit %r)" % (interp, ex.returncode), "interp": interp})
            continue
        out.per_interp[interp] += 2
        ka = (a.get("frames"), a.get("leaf"), a.get("error"), a.get("raised"))
        kb = (b.get("frames"), b.get("leaf"), b.get("error"), b.get("raised"))
        if ka != kb:
            viols.append({"desc": "frame %s returning next_inner (%s) is not the same as returning None on %s: None gives frames=%r "
                                  "leaf=%r error=%r, next_inner gives frames=%r leaf=%r error=%r" % (
                                      k, form, interp, ka[0], ka[1], ka[2] or ka[3], kb[0], kb[1], kb[2] or kb[3]),
                          "interp": interp})
    hooks = set(e[0] for e in case["elab"].values())
    out.note_case({"equiv": {"shape": shape, "pick": pick, "form": form}}, bool(hooks & {"prune", "empty"}),
                  classes=["space.equiv", "equiv." + form], n_eval=2 * len(interps))
    return viols


INS_FORMS = ["ins_empty", "ins_raw", "ins_wrapped", "ins_raw_prune", "ins_wrapped_prune", "ins_two"]


def insert_equiv_check(shape, pick, form, ws, interps, out):
    """metamorphic: a hook-less frame F that answers (X, next_inner) only ADDS X's frames right after F - what the frames
    after them go on to prune or replace is what it was without the insertion, and a prune issued by the inserted frame
    (which has no callees) removes nothing, however the inserted frame is spelled (frame object / item unwrapping to it).
    Arbitrary nestings, also those whose absolute outcome the documentation leaves open."""
    case = make_case("order", shape)
    plain = [k for k, e in sorted(case["elab"].items(), key=lambda kv: int(kv[0])) if e == ["none"]]
    nf = len(case["elab"])
    if not plain or nf + 2 >= KMAX:
        return []
    k = plain[pick % len(plain)]
    g, g2 = nf, nf + 1
    nodes = {"ins_empty": [{"name": 9001, "u": "empty", "ch": []}],
             "ins_raw": [{"f": g}], "ins_raw_prune": [{"f": g}],
             "ins_wrapped": [{"name": 9001, "u": "tuple", "ch": [{"f": g}]}],
             "ins_wrapped_prune": [{"name": 9001, "u": "list", "ch": [{"f": g}]}],
             "ins_two": [{"f": g}, {"name": 9001, "u": "tuple", "ch": [{"f": g2}]}]}[form]
    added = {"ins_empty": [], "ins_two": [g, g2]}.get(form, [g])
    elab = dict(case["elab"], **{k: ["insert", nodes]})
    for a in added:
        elab[str(a)] = ["prune"] if form.endswith("_prune") else ["none"]
    variant = {"space": "insert_equiv", "root": case["root"], "elab": elab}
    viols = []
    for interp in interps:
        try:
            a = ws[interp].request({"op": "hooks.c10", "root": case["root"], "elab": case["elab"]})
            b = ws[interp].request({"op": "hooks.c10", "root": variant["root"], "elab": variant["elab"]})
        except WorkerDied as ex:
            viols.append({"desc": "interpreter %s died (exit %r)" % (interp, ex.returncode), "interp": interp})
            continue
        out.per_interp[interp] += 2
        if a.get("raised") or a.get("error") or a.get("frames") is None:
            continue
        exp = list(a["frames"])
        if int(k) in exp:
            i = exp.index(int(k))
            exp[i + 1:i + 1] = added
        kb = (b.get("frames"), b.get("leaf"), b.get("error"), b.get("raised"))
        if kb != (exp, a.get("leaf"), None, None):
            viols.append({"desc": "frame %s answering (X, next_inner) [%s] did more than insert X's frames on %s: without it "
                                  "frames=%r leaf=%r; with it frames=%r leaf=%r error=%r; expected frames=%r" % (
                                      k, form, interp, a["frames"], a.get("leaf"), kb[0], kb[1], kb[2] or kb[3], exp),
                          "interp": interp})
    hooks = set(e[0] for e in case["elab"].values())
    out.note_case({"insert_equiv": {"shape": shape, "pick": pick, "form": form}}, bool(hooks & {"prune", "empty"}),
                  classes=["space.insert_equiv", "insert_equiv." + form], n_eval=2 * len(interps))
    return viols


def shard(arg):
    out = Outcome()
    interps = arg["interps"]
    with WorkerSet(interps, hooks=False) as ws:
        if not out.violations and arg.get("n_order", 0) > 0:
            fail = hyp_search(equiv_shapes(), lambda t: equiv_check(t[0], t[1], t[2], ws, interps, out),
                              seed=arg["seed"] + 3, max_examples=arg["n_order"], shrink=arg["shrink"])
            if fail:
                v = fail["violations"][0]
                t = fail["case"]
                out.violation(v["desc"], {"equiv": {"shape": t[0], "pick": t[1], "form": t[2]}}, v["interp"],
                              flaky=fail["flaky"], origin="equiv")
        if not out.violations and arg.get("n_order", 0) > 0:
            strat = st.tuples(equiv_shapes().map(lambda t: t[0]), st.integers(0, 50), st.sampled_from(INS_FORMS))
            fail = hyp_search(strat, lambda t: insert_equiv_check(t[0], t[1], t[2], ws, interps, out),
                              seed=arg["seed"] + 5, max_examples=arg["n_order"], shrink=arg["shrink"])
            if fail:
                v = fail["violations"][0]
                t = fail["case"]
                out.violation(v["desc"], {"insert_equiv": {"shape": t[0], "pick": t[1], "form": t[2]}}, v["interp"],
                              flaky=fail["flaky"], origin="insert_equiv")
        for g in arg.get("guards", []):
            v = check_guard(ws, interps, g, out)
            out.note_case(g, g["guard"] != "chain" or g.get("n", 0) >= 2, classes=["guard." + g["guard"]], n_eval=len(interps))
            if v:
                out.violation(v[0]["desc"], g, v[0]["interp"], origin="guard")
        for space, strat, n in (("core", core_shapes(), arg["n_core"]), ("order", order_shapes(), arg["n_order"]),
                                ("balanced", balanced_shapes(), arg["n_order"])):
            if out.violations or n <= 0:
                continue
            fail = hyp_search(strat.map(lambda s, space=space: make_case(space, s)),
                              lambda case: compare(case, ws, interps, out),
                              seed=arg["seed"], max_examples=n, shrink=arg["shrink"])
            if fail:
                v = fail["violations"][0]
                out.violation(v["desc"], fail["case"], v["interp"], flaky=fail["flaky"], origin=space)
    return out


def run(ctx):
    nshards = ctx.pick(8, 16)
    n_core = ctx.pick(1600, 160000) // nshards
    n_order = ctx.pick(400, 40000) // nshards
    guards = guard_cases()
    args = [{"interps": ALL, "seed": ctx.shard_seed(i), "n_core": n_core, "n_order": n_order,
             "shrink": not ctx.quick, "guards": guards[i::nshards]} for i in range(nshards)]
    out = run_shards("checks.c10", "shard", args)
    out.extra["interpreters"] = ALL
    return out


def replay(ctx, data):
    out = Outcome()
    case = data["case"]
    interps = [data["interp"]] if data.get("interp") in ALL else ALL
    with WorkerSet(interps, hooks=False) as ws:
        if "guard" in case:
            v = check_guard(ws, interps, case, out)
            out.note_case(case, True, n_eval=len(interps))
        elif "equiv" in case:
            e = case["equiv"]
            v = equiv_check(e["shape"], e["pick"], e["form"], ws, interps, out)
        elif "insert_equiv" in case:
            e = case["insert_equiv"]
            v = insert_equiv_check(e["shape"], e["pick"], e["form"], ws, interps, out)
        else:
            v = compare(case, ws, interps, out)
        for x in v:
            out.violation(x["desc"], case, x["interp"])
    return out
