"""C07 - thread stacks: exact when the thread is blocked, memory-safe when it is racing."""
import itertools

from hypothesis import strategies as st

from vlib.driver import Outcome, run_shards
from vlib.hyp import hyp_search
from vlib.workers import ALL, WorkerDied, WorkerSet

PROPERTY = "C07"
LEVEL = "exploration"
RACE_INTERPS = ALL
RULE = ("(Stress variant churn on 3.9 / 3.10: the target leaves its with blocks and at once allocates and frees small containers, so that a slot read a moment too late points at freed memory; 2500 / 20000 extractions per configuration.) (Scripts d and e - a loop whose gates sit in a C-level and in a Python-level call at different stack depths; sibling with blocks in a generator the thread iterates - are also explored with two moves per schedule, and for the inspect API the raced snapshot must equal one of the snapshots taken while the thread is blocked at a gate. Finished: also a foreign thread's dummy Thread object whose ident a new thread has taken.) (Every other shard runs its interpreters under PYTHONOPTIMIZE=1 - python -O, assert statements compiled away - and the stress run is done both ways.) Blocked leg (CPython 3.9-3.12): Hypothesis-generated thread bodies of call depth 1..6 with 0-3 nested with blocks "
        "per frame (single and multi-item, inside try/finally), each level calling inward by a plain / returned / *args / **kwargs call, (plus one thread whose stack is 300 frames deeper than the recursion limit in force when it is inspected), the thread being a Thread(target=...), a Thread subclass, a Timer or a thread started through _thread (dummy Thread object), blocked on an Event at the innermost level or with the innermost level itself blocked in a C callable (lock.acquire, same four call forms); oracle = shadow call "
        "log: harness frames of extract(thread) equal it outermost first with contexts equal to each frame's managers, all "
        "frames equal the thread's f_back chain, threading internals hidden; unstarted / finished threads give no frames and no "
        "error. Racing leg (3.9-3.12; guarded yield points, which the 3.9 / 3.10 inspector has had since its repair): three scripted target threads plus Hypothesis-generated scripts (with / for / try-finally over gates, a quarter of the gates followed by a raise that takes the frame out through its blocks) (nested and multi-item with "
        "blocks, a loop re-entering the same with at the same instruction position with different managers, try/finally, a "
        "generator-owned frame) whose every step ends at a gate; the inspector calls extract(thread), extract_since(frame), "
        "lowlevel.contexts_active_in_frame(frame) or inspect_frame(frame); schedules <gates passed before the call, dynamic index "
        "j of the yield point reached inside inspect_frame (the last of them between the completed snapshot and the walk over the exception table) / unwrap_thread / the other-thread search, number k of gates the "
        "target then passes - including 'returns from the frame', 'thread finishes' and 'finishes and a new thread is started'> "
        "are enumerated; plus randomised stress runs with a 1 microsecond switch interval in three variants: a thread looping over with blocks; a thread whose frames keep being left by an exception that passes through with blocks (which restores the f_lasti of the raising instruction); short-lived threads that finish, and whose stacks are freed, while they are inspected. Oracle (racing): the worker does not "
        "die, the call does not raise, no reported frame belongs to the inspector or the decoy thread, and the contexts "
        "reported for the scripted frame are consistent with ONE instruction position (each manager was created for the line "
        "its context names, the nesting is one that is active at a single position, loop managers belong to one iteration) - or "
        "the snapshot was rejected (InspectionWarning / RuntimeError from inspect_frame); for inspect_frame itself every value-stack entry of the returned snapshot is something the scripted frame puts there (bound __exit__ of one of its managers, loop iterator, empty slot) and those managers are such a nesting. Non-trivial: a blocked body of depth >= "
        "2 with >= 2 managers; a schedule cell in which the target moved while the inspector was inside the snapshot; distinct = "
        "distinct body / cell.")
ASSUMPTIONS = [
    "on 3.9/3.10 the implementation has no consistency protocol (addresses are collected, then dereferenced); exploring the "
    "racing clause there would mean deliberately executing a use-after-free, so only the blocked leg runs on 3.9/3.10 - this is "
    "a stated limit, not a claim that the clause holds there",
    "yield points coincide with real preemption points (after a call / before a backward jump); interleavings inside a single "
    "bytecode are not explored; the stress run is a smoke test",
]

SCRIPTS = {"a": 9, "b": 10, "c": 8, "d": 8, "e": 10}   # script -> number of gate advances worth exploring
# scripts whose frame comes back to a position it has been at before (loops): also explored with TWO moves, k1 gates at one
# preemption point and k2 more at a later one
PAIR_SCRIPTS = ("d", "e")
PAIRS = [[1, 1], [1, 2], [2, 1], [1, 3], [2, 2]]
APIS = ["thread", "ctx", "since", "inspect"]


def bodies():
    # per level: [with-nesting shape 0..3, call form 0..9 (plain / returned / *args / **kwargs; 6..9: the innermost level
    # blocks in a C callable by itself)]
    # shape 4: a frame whose block stack is full (20 nested with blocks; 17 on 3.12)
    lv = st.lists(st.tuples(st.sampled_from([0, 1, 2, 3, 0, 1, 2, 3, 4]), st.integers(0, 9)).map(list), min_size=1, max_size=6)
    # how the thread came to be: Thread(target=...), a Thread subclass overriding run(), a Timer, or a thread started
    # behind the threading module's back (its Thread object is a dummy)
    return st.tuples(lv, st.sampled_from(["target", "target", "subclass", "timer", "raw"])).map(
        lambda p: p[0] if p[1] == "target" else p[0] + [p[1]])


def scripts():
    """generated racing scripts: with (1-2 items) / for / try-finally over gates, nesting <= 3"""
    # (xgate: a gate followed by `raise`: from there the frame is left by an exception that passes through its blocks)
    gate = st.sampled_from([{"t": "gate"}, {"t": "gate"}, {"t": "gate"}, {"t": "xgate"}])

    def ext(ch):
        blk = st.lists(ch, min_size=1, max_size=3)
        return st.one_of(
            st.fixed_dictionaries({"t": st.just("with"), "n": st.sampled_from([1, 1, 2]), "body": blk}),
            st.fixed_dictionaries({"t": st.just("with"), "n": st.sampled_from([1, 2]), "body": blk}),
            st.fixed_dictionaries({"t": st.just("for"), "body": blk}),
            st.fixed_dictionaries({"t": st.just("try"), "body": blk, "final": st.lists(ch, min_size=1, max_size=1)}))
    stmt = st.recursive(gate, ext, max_leaves=6)
    return st.fixed_dictionaries({
        "script": st.lists(stmt, min_size=1, max_size=3),
        "api": st.sampled_from(APIS),
        "nadv": st.integers(0, 6),
        "ks": st.lists(st.sampled_from([1, 2, 3, 5, 9]), min_size=1, max_size=2, unique=True),
    })


def check_generated(ws, case, out):
    v = check_cells(ws, [[case["script"], case["api"], case["nadv"]]], case["ks"], out)
    return v


def check_blocked(ws, interps, levels, out):
    viols = []
    tkind = "target"
    if levels and isinstance(levels[-1], str):
        levels, tkind = levels[:-1], levels[-1]
    for interp in interps:
        try:
            res = ws[interp].request({"op": "threads.blocked", "levels": levels, "thread_kind": tkind})
        except WorkerDied as ex:
            viols.append({"desc": "interpreter %s died (exit %r)" % (interp, ex.returncode), "interp": interp})
            continue
        out.per_interp[interp] += 1
        if res["obs"]:
            viols.append({"desc": "%s on %s: %r" % (res["obs"][0]["kind"], interp, res["obs"][0]), "interp": interp})
    lv = [[x, 0] if isinstance(x, int) else x for x in levels]
    cnames = ["plain", "ret", "star", "retstar", "kw", "retkw", "c_plain", "c_ret", "c_star", "c_retstar"]
    classes = ["blocked", "blocked.depth.%d" % len(lv)] + ["blocked.call." + cnames[c if k == len(lv) - 1 or c < 6 else c - 6]
                                                            for k, (_s, c) in enumerate(lv)]
    classes.append("blocked.thread_kind." + tkind)
    out.note_case({"levels": levels + ([tkind] if tkind != "target" else [])}, len(lv) >= 2 and sum(x[0] for x in lv) >= 2,
                  classes=sorted(set(classes)), n_eval=len(interps))
    return viols


def check_cells(ws, cells, ks, out):
    viols = []
    for interp in RACE_INTERPS:
        for cell in cells:
            try:
                res = ws[interp].request({"op": "threads.race", "cells": [cell], "ks": ks,
                                          "pairs": PAIRS if cell[0] in PAIR_SCRIPTS else None}, timeout=600)
            except WorkerDied as ex:
                viols.append({"desc": "interpreter %s DIED (exit %r) while racing: cell %r" % (interp, ex.returncode, cell),
                              "interp": interp, "cell": cell})
                continue
            if res.get("skipped"):
                continue
            out.per_interp[interp] += 1
            s = res["stats"]
            for k, v in s.items():
                out.extra["race." + k] = out.extra.get("race." + k, 0) + v
            sname = cell[0] if isinstance(cell[0], str) else "generated"
            out.note_case({"cell": cell, "interp": interp}, s["moved"] > 0,
                          classes=["race", "race.script." + sname, "race.api." + cell[1]], n_eval=s["schedules"])
            if res["obs"]:
                viols.append({"desc": "race on %s: %r" % (interp, res["obs"][0]), "interp": interp, "cell": cell,
                              "obs": res["obs"]})
    return viols


OPT_ENV = {"PYTHONOPTIMIZE": "1"}   # python -O: assert statements are compiled away


def shard(arg):
    out = shard_body(arg)
    if arg.get("optimize"):
        for v in out.violations:
            if isinstance(v.get("case"), dict):
                v["case"]["optimize"] = True
    return out


def shard_body(arg):
    out = Outcome()
    with WorkerSet(ALL, hooks=True, timeout=600, extra_env=OPT_ENV if arg.get("optimize") else None) as ws:
        if arg.get("optimize"):
            out.hist["shards_run_under_python_-O"] += 1
        if arg.get("deep"):
            for interp in ALL:
                case = {"deep_thread": True}
                try:
                    res = ws[interp].request({"op": "threads.deep", "extra": 300})
                except WorkerDied as ex:
                    out.violation("interpreter %s died (exit %r) on the deep thread" % (interp, ex.returncode), case, interp)
                    continue
                out.per_interp[interp] += 1
                if res["obs"]:
                    out.violation("%s on %s: %r" % (res["obs"][0]["kind"], interp, res["obs"][0]), case, interp)
            out.note_case({"deep_thread": True}, True, classes=["blocked", "blocked.deeper_than_the_recursion_limit"], n_eval=len(ALL))
        if arg.get("deep"):
            case = {"finished_foreign_thread": True}
            reused = 0
            for interp in ALL:
                for _rep in range(3):
                    try:
                        res = ws[interp].request({"op": "threads.finished_foreign"})
                    except WorkerDied as ex:
                        out.violation("interpreter %s died (exit %r)" % (interp, ex.returncode), case, interp)
                        break
                    out.per_interp[interp] += 1
                    reused += res["stats"]["ident_reused"]
                    if res["obs"]:
                        out.violation("%s on %s: %r" % (res["obs"][0]["kind"], interp, res["obs"][0]), case, interp)
                        break
            out.extra["finished_foreign_thread.ident_reused"] = reused
            out.note_case(case, reused > 0, classes=["finished.foreign_thread_whose_ident_was_reused"], n_eval=3 * len(ALL))
        fail = hyp_search(bodies(), lambda lv: check_blocked(ws, ALL, lv, out), seed=arg["seed"], max_examples=arg["n"],
                          shrink=arg["shrink"])
        if fail:
            v = fail["violations"][0]
            out.violation(v["desc"], {"levels": fail["case"]}, v["interp"], flaky=fail["flaky"])
        for v in check_cells(ws, arg["cells"], arg["ks"], out):
            out.violation(v["desc"], {"cell": v["cell"], "ks": arg["ks"]}, v["interp"], obs=v.get("obs"))
        if not out.violations and arg.get("n_gen"):
            fail = hyp_search(scripts(), lambda c: check_generated(ws, c, out), seed=arg["seed"] + 3,
                              max_examples=arg["n_gen"], shrink=arg["shrink"])
            if fail:
                v = fail["violations"][0]
                out.violation(v["desc"], {"cell": [fail["case"]["script"], fail["case"]["api"], fail["case"]["nadv"]],
                                          "ks": fail["case"]["ks"]}, v["interp"], obs=v.get("obs"), flaky=fail["flaky"])
        if arg.get("stress"):
            for interp, variant in [(i, v) for i in RACE_INTERPS for v in ("loop", "exception", "short_lived", "churn")]:
                n_it = arg["stress"] if variant == "loop" else max(50, arg["stress"] // 4)
                if variant == "churn" and interp not in ("3.9", "3.10"):
                    continue      # (on 3.11+ the check and the read that follows it cannot be separated by a thread switch)
                if variant == "churn":
                    # (what it is after - a reference taken through a stale pointer on 3.9 / 3.10 - shows as a crash in
                    # about one run of 6000 extractions in three)
                    n_it = 2500 if arg["stress"] <= 1000 else 20000
                if variant == "loop" and interp in ("3.9", "3.10"):
                    # (since the F79 repair the 3.9 / 3.10 inspector resolves a foreign frame's slots through the collector's
                    # object list: ~27 ms per extraction of a running thread. Bounded by count, not by the clock.)
                    n_it = min(n_it, 8000)
                try:
                    res = ws[interp].request({"op": "threads.stress", "iterations": n_it, "variant": variant}, timeout=2400)
                except WorkerDied as ex:
                    out.violation("interpreter %s DIED (exit %r) in the stress run (%s)" % (interp, ex.returncode, variant),
                                  {"stress": arg["stress"], "variant": variant}, interp)
                    ws[interp].start()
                    continue
                for k, v in res.get("stats", {}).items():
                    out.extra[k] = out.extra.get(k, 0) + v
                out.evaluations += res.get("stats", {}).get("stress_extractions", 0)
                if res.get("obs"):
                    out.violation("stress on %s: %r" % (interp, res["obs"][0]), {"stress": arg["stress"]}, interp)
    return out


def all_cells():
    return [[s, api, n] for s, mx in SCRIPTS.items() for api in APIS for n in range(mx)]


def run(ctx):
    nshards = ctx.pick(12, 16)
    cells = all_cells()
    if ctx.quick:
        # a rotating third of the cells with a short list of k; everything in the thorough tier
        cells = cells[(ctx.seed % 3)::3]
        ks = [1, 2, 4, 12]
    else:
        ks = [1, 2, 3, 4, 5, 6, 8, 12]
    args = [{"seed": ctx.shard_seed(i), "n": ctx.pick(96, 4800) // nshards, "shrink": not ctx.quick,
             "cells": cells[i::nshards], "ks": ks, "stress": ctx.pick(500, 40000) if i in (0, 1) else 0,
             "n_gen": ctx.pick(72, 4800) // nshards, "deep": i == 1,
             # every other shard runs its interpreters with -O (the safety of the inspectors must not rest on assert
             # statements); the stress run is done both ways
             "optimize": i % 2 == 1}
            for i in range(nshards)]
    out = run_shards("checks.c07", "shard", args)
    out.extra["interpreters_blocked_leg"] = ALL
    out.extra["interpreters_racing_leg"] = RACE_INTERPS
    out.extra["race_cells_total"] = len(all_cells())
    out.extra["race_cells_run"] = len(cells)
    return out


def replay_deep(ctx, data):
    out = Outcome()
    interps = [data["interp"]] if data.get("interp") in ALL else ALL
    with WorkerSet(interps, hooks=True, timeout=600) as ws:
        for interp in interps:
            res = ws[interp].request({"op": "threads.deep", "extra": 300})
            out.note_case(data["case"], True)
            if res["obs"]:
                out.violation("%s on %s: %r" % (res["obs"][0]["kind"], interp, res["obs"][0]), data["case"], interp)
    return out


def replay(ctx, data):
    if data.get("case", {}).get("deep_thread"):
        return replay_deep(ctx, data)
    if data.get("case", {}).get("finished_foreign_thread"):
        out = Outcome()
        interps = [data["interp"]] if data.get("interp") in ALL else ALL
        with WorkerSet(interps, hooks=True, timeout=600) as ws:
            for interp in interps:
                for _rep in range(3):
                    res = ws[interp].request({"op": "threads.finished_foreign"})
                    out.note_case(data["case"], True)
                    if res["obs"]:
                        out.violation("%s on %s: %r" % (res["obs"][0]["kind"], interp, res["obs"][0]), data["case"], interp)
                        break
        return out
    out = Outcome()
    case = data["case"]
    with WorkerSet(ALL, hooks=True, timeout=600, extra_env=OPT_ENV if case.get("optimize") else None) as ws:
        if "levels" in case:
            interps = [data["interp"]] if data.get("interp") in ALL else ALL
            for v in check_blocked(ws, interps, case["levels"], out):
                out.violation(v["desc"], case, v["interp"])
        elif "cell" in case:
            for v in check_cells(ws, [case["cell"]], case.get("ks", [1, 2, 4, 12]), out):
                out.violation(v["desc"], case, v["interp"], obs=v.get("obs"))
        else:
            out.note_case(case, True)
    return out
