"""C15 - greenlet stacks: suspended, current, dead, foreign-thread, and greenback bridges."""
from hypothesis import strategies as st

from vlib.driver import Outcome, run_shards
from vlib.hyp import hyp_search
from vlib.workers import WorkerDied, WorkerSet

PROPERTY = "C15"
LEVEL = "exploration"
INTERPS = ["3.12"]
RULE = ("(Every chain also has a started, suspended greenlet whose run callable is implemented in C - no Python frame at all: no frames, no error. Portal given a coroutine-like object, truthy or falsy, instead of a coroutine: the stack ends with that object as leaf.) (Half of the chains are made of greenlet subclasses that define a truth value of their own, always false / always true.) Greenlet parent chains of 1..5 greenlets (each the child of the previous) with call depth 0..4 inside each, plus an "
        "unrelated suspended greenlet, an unstarted and a dead one; every greenlet is extracted from the main greenlet, from "
        "inside itself (current), from its child, from a deeper descendant and from the unrelated greenlet's point of view; a "
        "greenlet running in another thread. Oracle: a shadow call log per greenlet - suspended: exactly its own frames from "
        "entry function to switch point, whoever asks; current: exactly its own portion of the running stack up to the caller; "
        "unstarted/dead: no frames; other thread: an error and no frames; extract_outermost agrees. greenback under Trio: "
        "sync/async alternation depth 0..5, extraction from outside the task and from inside it; the harness-file frames must "
        "be, in order, exactly the generated call chain, every frame executing greenback.await_ is hidden and so is every "
        "other frame between two frames of the chain (the bridging internals), and the portal's own generator / trampoline frames (_greenback_shim, _greenback_shim_sync, trampoline) are hidden wherever they sit in either view; the synchronous levels may make their await_ from greenlets spawned 1-2 levels below the portal's child greenlet; the same under asyncio, where coroutines are "
        "resumed through the error path (each level first awaits a failing future). CPython 3.12 "
        "(the only interpreter here with greenlet/greenback/trio). Non-trivial: chain of >= 2 greenlets inspected from a "
        "descendant, or alternation depth >= 2; distinct = distinct IR.")
ASSUMPTIONS = [
    "greenback-internal frames other than greenback.await_ and the portal's generator / trampoline are not constrained (the repository's own test shows some of them)",
]


def chains():
    return st.fixed_dictionaries({
        "chain": st.lists(st.integers(0, 4), min_size=1, max_size=5),
        "sibling": st.sampled_from([0, 1, 2, 4]),
        "inside": st.just(True),
        # greenlet subclasses whose __bool__ says something else than "started and not finished"
        "glet_class": st.sampled_from(["plain", "plain", "falsy", "truthy"]),
    })


def check(ws, req, out, case, nontrivial, classes):
    viols = []
    try:
        res = ws["3.12"].request(req, timeout=120)
    except WorkerDied as ex:
        return [{"desc": "interpreter died (exit %r)" % ex.returncode, "interp": "3.12"}]
    out.per_interp["3.12"] += 1
    out.extra["observations"] = out.extra.get("observations", 0) + res["stats"]["observations"]
    out.extra["from_descendant"] = out.extra.get("from_descendant", 0) + res["stats"]["from_descendant"]
    if res["obs"]:
        viols.append({"desc": "%s: %r" % (res["obs"][0]["kind"], res["obs"][0]), "interp": "3.12", "obs": res["obs"]})
    out.note_case(case, nontrivial, classes=classes, n_eval=max(1, res["stats"]["observations"]))
    return viols


def shard(arg):
    out = Outcome()
    with WorkerSet(INTERPS, hooks=False) as ws:
        for how in arg.get("orphans", []):
            for depth in (0, 2):
                case = {"orphan": how, "depth": depth}
                v = check(ws, {"op": "green.orphan", "how": how, "depth": depth}, out, case, True,
                          ["orphan_greenlet", "orphan_greenlet." + how])
                if v:
                    out.violation(v[0]["desc"], case, "3.12", obs=v[0].get("obs"))
        for depth in arg["gb_depths"]:
            case = {"greenback_depth": depth}
            v = check(ws, {"op": "green.greenback", "depth": depth}, out, case, depth >= 2, ["greenback", "greenback.depth.%d" % depth])
            if v:
                out.violation(v[0]["desc"], case, "3.12", obs=v[0].get("obs"))
            if depth == 0:
                # a blocked task that is GIVEN its portal from outside (bestow_portal) and looked at before its next step
                case = {"greenback_depth": 0, "portal": "bestow"}
                v = check(ws, {"op": "green.greenback", "depth": 0, "portal": "bestow"}, out, case, True,
                          ["greenback", "greenback.portal.bestow"])
                if v:
                    out.violation(v[0]["desc"], case, "3.12", obs=v[0].get("obs"))
            if depth == 0:
                for portal in ("run_wrapped_truthy", "run_wrapped_falsy"):
                    case = {"greenback_depth": 0, "portal": portal}
                    v = check(ws, {"op": "green.greenback", "depth": 0, "portal": portal}, out, case, True,
                              ["greenback", "greenback.portal." + portal])
                    if v:
                        out.violation(v[0]["desc"], case, "3.12", obs=v[0].get("obs"))
            for portal in ("run", "run_sync"):
                # how the task got its portal: ensure_portal() (above), with_portal_run(async fn), with_portal_run_sync(fn)
                case = {"greenback_depth": depth, "portal": portal}
                v = check(ws, {"op": "green.greenback", "depth": depth, "portal": portal}, out, case, depth >= 1,
                          ["greenback", "greenback.portal." + portal])
                if v:
                    out.violation(v[0]["desc"], case, "3.12", obs=v[0].get("obs"))
            for awk in (1, 2):
                # what is handed to await_() is an awaitable object, not a coroutine
                case = {"greenback_depth": depth, "awaitable": awk}
                v = check(ws, {"op": "green.greenback", "depth": depth, "awaitable": awk}, out, case, depth >= 1,
                          ["greenback", "greenback.await_of_a_non_coroutine_awaitable.%d" % awk])
                if v:
                    out.violation(v[0]["desc"], case, "3.12", obs=v[0].get("obs"))
            for spawn in (1, 2):
                # the synchronous levels run their await_ bridge in greenlets nested below the portal's (both views: the task is parked in an await_ made by such a greenlet)
                case = {"greenback_depth": depth, "spawn": spawn}
                v = check(ws, {"op": "green.greenback", "depth": depth, "spawn": spawn}, out, case, depth >= 1,
                          ["greenback", "greenback.bridge_from_nested_greenlet.%d" % spawn])
                if v:
                    out.violation(v[0]["desc"], case, "3.12", obs=v[0].get("obs"))
        for depth in arg["gb_depths"]:
            for err in (True, False):
                case = {"greenback_asyncio_depth": depth, "error_resume": err}
                v = check(ws, {"op": "green.greenback_asyncio", "depth": depth, "error_resume": err}, out, case, depth >= 2,
                          ["greenback_asyncio", "greenback_asyncio.error_resume" if err else "greenback_asyncio.value_resume"])
                if v:
                    out.violation(v[0]["desc"], case, "3.12", obs=v[0].get("obs"))
        if arg["other_thread"]:
            case = {"other_thread": True}
            v = check(ws, {"op": "green.other_thread"}, out, case, True, ["other_thread"])
            if v:
                out.violation(v[0]["desc"], case, "3.12")
            case = {"exited_thread": True}
            v = check(ws, {"op": "green.exited_thread"}, out, case, True, ["greenlets_of_an_exited_thread"])
            if v:
                out.violation(v[0]["desc"], case, "3.12")
        if not out.violations:
            fail = hyp_search(chains(), lambda ir: check(ws, {"op": "green.chain", "ir": ir}, out, ir, len(ir["chain"]) >= 2,
                                                         ["chain", "chain.len.%d" % len(ir["chain"])] +
                                                         (["with_unrelated"] if ir["sibling"] else [])),
                              seed=arg["seed"], max_examples=arg["n"], shrink=arg["shrink"])
            if fail:
                v = fail["violations"][0]
                out.violation(v["desc"], fail["case"], "3.12", obs=v.get("obs"), flaky=fail["flaky"])
    return out


def run(ctx):
    nshards = ctx.pick(6, 16)
    depths = list(range(0, 6))
    args = [{"seed": ctx.shard_seed(i), "n": ctx.pick(240, 24000) // nshards, "shrink": not ctx.quick,
             "gb_depths": depths[i::nshards], "other_thread": i == 0,
             "orphans": ["dead", "unstarted", "dead_below_live"] if i == 1 else []} for i in range(nshards)]
    out = run_shards("checks.c15", "shard", args)
    out.extra["interpreters"] = INTERPS
    return out


def replay(ctx, data):
    out = Outcome()
    case = data["case"]
    with WorkerSet(INTERPS, hooks=False) as ws:
        if "greenback_asyncio_depth" in case:
            req = {"op": "green.greenback_asyncio", "depth": case["greenback_asyncio_depth"], "error_resume": case["error_resume"]}
        elif "orphan" in case:
            req = {"op": "green.orphan", "how": case["orphan"], "depth": case.get("depth", 2)}
        elif "greenback_depth" in case:
            req = {"op": "green.greenback", "depth": case["greenback_depth"], "spawn": case.get("spawn", 0),
                   "awaitable": case.get("awaitable", 0), "portal": case.get("portal", "ensure")}
        elif "exited_thread" in case:
            req = {"op": "green.exited_thread"}
        elif "other_thread" in case:
            req = {"op": "green.other_thread"}
        else:
            req = {"op": "green.chain", "ir": case}
        for v in check(ws, req, out, case, True, []):
            out.violation(v["desc"], case, "3.12", obs=v.get("obs"))
    return out
