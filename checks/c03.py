"""C03 - a suspended await/yield-from chain extracts as the path an exception would take."""
from vlib import chainstrat
from vlib.driver import Outcome, run_shards
from vlib.hyp import hyp_search
from vlib.workers import ALL, WorkerDied, WorkerSet

PROPERTY = "C03"
LEVEL = "exploration"
RULE = ("(Fixed scenario: an async generator that finished while its aclose() awaitable was thrown into - ag_running stale - yields no frames.) Each point is extracted with and without contexts: nothing but the contexts may differ (frames, lines, hide flags, origins). Chains of depth 0..6 whose links are drawn from {await coroutine, await generator-based coroutine, await object "
        "whose __await__ returns a coroutine wrapper / is a generator / returns a plain generator, async for / __anext__ / "
        "asend / athrow / aclose on a native async generator, asend(VALUE) into a running async generator with VALUE a suspended async generator / generator / coroutine / object with generator-like attributes / int, the anext() builtin in its one- and two-argument forms over a native async generator and over a class-based async iterator (3.10+; plain __anext__ on 3.9)}, outermost object a coroutine, generator, generator-based "
        "coroutine or async generator, ending in a trap (suspending 1-3 times), a future-like non-frame awaitable or a list "
        "iterator; plus a fixed family of deep single-kind chains (30..130 links) and one deep mixed chain; single-line and multi-line await expressions; every suspension point of each chain observed (fresh chain per "
        "point) on CPython 3.9-3.12. Oracle: differential against the interpreter itself - a BaseException thrown into x right "
        "after extraction; its traceback's (frame object, line) list must equal extract(x).frames; leaf is the terminator the "
        "builder created; root is x; with_contexts on/off same frames; exhausted x gives nothing. Non-trivial: depth >= 2 frames "
        "with >= 1 link other than plain `await coroutine`; distinct = distinct IR.")
ASSUMPTIONS = [
    "non-frame leaves have no Python-level throw() (which would add a traceback entry of its own)",
    "the first traceback entry (the harness frame calling throw) is dropped",
]

OP = "chains.c03"
KINDS = None


def check_case(ws, interps, ir, out, op=OP, extra=None):
    viols = []
    points = 0
    for interp in interps:
        req = {"op": op, "ir": ir}
        if extra:
            req.update(extra)
        try:
            res = ws[interp].request(req)
        except WorkerDied as ex:
            viols.append({"desc": "interpreter %s died (exit %r)" % (interp, ex.returncode), "interp": interp})
            continue
        out.per_interp[interp] += 1
        points += res["stats"].get("points", 1)
        for k, v in res["stats"].items():
            out.extra["obs." + k] = out.extra.get("obs." + k, 0) + v
        if res["obs"]:
            viols.append({"desc": "%s on %s: %r" % (res["obs"][0]["kind"], interp, res["obs"][0]), "interp": interp,
                          "obs": res["obs"][:5]})
    if "special" in ir:
        out.note_case(ir, True, classes=["special." + ir["special"]], n_eval=len(interps))
    else:
        out.note_case(ir, chainstrat.nontrivial(ir), classes=sorted(chainstrat.classes(ir)), n_eval=len(interps))
    return viols


def deep_chains():
    """Long chains of one link kind each (and one mixed): the unwrapping loop's no-progress guard counts
    steps since the last frame, so depth itself must never trip it."""
    out = []
    for kind, depths in (("await_coro", (60, 130)), ("await_obj_wrapper", (40, 70)), ("yield_from_gen", (60, 110)),
                         ("asend", (30, 50)), ("anext", (45,)), ("await_gencoro", (120,)), ("await_obj_gen", (60,))):
        for d in depths:
            out.append({"outer": "coro", "outer_ml": False, "links": [[kind, False]] * d, "end": "trap", "nsusp": 1})
    mixed = [["asend", False], ["await_obj_wrapper", True], ["yield_from_gen", False], ["await_coro", False]] * 12
    out.append({"outer": "agen", "outer_ml": True, "links": mixed, "end": "fut", "nsusp": 1})
    # a fixed scenario outside the chain grammar: await anext(it, default) where it.__anext__() hands out an awaitable that
    # is also a sequence (a tuple subclass holding an unrelated suspended coroutine): nothing of that tuple is part of the chain
    out.append({"special": "anext_sequence_awaitable"})
    # an async generator that finished while its aclose() awaitable was thrown into: ag_frame None, ag_running still set
    out.append({"special": "exhausted_agen_with_running_flag"})
    return out


def shard(arg):
    out = Outcome()
    interps = arg["interps"]
    with WorkerSet(interps, hooks=False) as ws:
        for ir in arg.get("deep", []):
            v = check_case(ws, interps, ir, out, arg["op"])
            out.hist["deep_chain"] += 1
            if v:
                out.violation(v[0]["desc"], ir, v[0]["interp"], obs=v[0].get("obs"), origin="deep")
        if out.violations:
            return out
        fail = hyp_search(chainstrat.chains(), lambda ir: check_case(ws, interps, ir, out, arg["op"]),
                          seed=arg["seed"], max_examples=arg["n"], shrink=arg["shrink"])
        if fail:
            v = fail["violations"][0]
            out.violation(v["desc"], fail["case"], v["interp"], obs=v.get("obs"), flaky=fail["flaky"])
    return out


def run(ctx, op=OP, module="checks.c03"):
    nshards = ctx.pick(8, 16)
    n = ctx.pick(640, 48000) // nshards
    deep = deep_chains() if op == OP else []
    args = [{"interps": ALL, "seed": ctx.shard_seed(i), "n": n, "shrink": not ctx.quick, "op": op, "deep": deep[i::nshards]}
            for i in range(nshards)]
    out = run_shards(module, "shard", args)
    out.extra["interpreters"] = ALL
    return out


def replay(ctx, data, op=OP):
    out = Outcome()
    interps = [data["interp"]] if data.get("interp") in ALL else ALL
    with WorkerSet(interps, hooks=False) as ws:
        for v in check_case(ws, interps, data["case"], out, op):
            out.violation(v["desc"], data["case"], v["interp"], obs=v.get("obs"))
    return out
