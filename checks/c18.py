"""C18 - tree formatting is well-formed; reading it back recovers the Stack's structure."""
from vlib import treestrat as T
from vlib.driver import Outcome, run_shards
from vlib.hyp import hyp_search
from vlib.workers import ALL, WorkerDied, WorkerSet

PROPERTY = "C18"
LEVEL = "exploration"
RULE = ("(In the multi-line trees the NAMES span lines too: the module name of one pool function, the manager's type name, the varname.) (Children lists may be a 'sandwich': a populated child stack, a hidden child context, another child stack - the connector drawn for each must not depend on a hidden sibling.) Stack trees (depth <= 4, width <= 3) built with the public constructors over a pool of 12 real frames: contexts "
        "with every combination of obj / varname / start_line (absent, valid, beyond the file) / description present or "
        "absent, is_async, is_exiting, hide; inner stacks; children mixing child contexts, stub child stacks and populated "
        "child stacks with/without root; leaf; error (single exception or group, constructed or really raised through nested calls, multi-line message, raised group with a raised member, chained with __cause__); frame hide / hide_line / lineno 0 / no line at all (Frame.lineno None, as for a frame between lines on 3.10+); the multi-line error message contains every kind of line boundary (\\n, \\r, \\f, \\x1c, and U+2028 / \\x85 in the non-ASCII trees); all names "
        "and texts ASCII tokens made unique per element (a quarter of the trees with multi-line descriptions and multi-line reprs of root / leaf, a quarter with descriptions and reprs that are not ASCII - none of the marker characters). Each tree is formatted in all 8 option combinations on CPython "
        "3.9-3.12. Oracle: (1) every element of format() ends with exactly one newline, str(x) is their concatenation (also for "
        "Frame and Context); (2) round trip: a recursive-descent reader of the box-drawing prefixes rebuilds the tree (frames "
        "with function/line, contexts with their unique variable token, inner stacks with leaf/error, child entries with token "
        "and nested content) which must equal the abstraction of the generated tree under the same options (hidden elements "
        "iff show_hidden_frames, contexts iff show_contexts, code line omitted for an exiting last context); (3) the ascii_only "
        "text equals the Unicode text with each prefix marker mapped to its ASCII counterpart (so the non-ASCII free text is carried over unchanged) and is pure ASCII when the free text is. Non-trivial: "
        "tree with a context having both inner stack and children, or a populated child stack, or a hidden element; distinct = "
        "distinct IR.")
ASSUMPTIONS = [
    "free text is ASCII tokens in three quarters of the trees, so the property's premise 'names, source and reprs are ASCII' holds there; the non-ASCII text of the rest avoids the marker characters themselves",
    "a child Context and a child Stack are both 'child entry with text'; an inner/child stack that prints nothing is "
    "indistinguishable from an absent one - the oracle does not ask the format to distinguish them",
]


def check_tree(ws, interps, tree, out):
    viols = []
    for interp in interps:
        try:
            res = ws[interp].request({"op": "trees.c18", "tree": tree})
        except WorkerDied as ex:
            viols.append({"desc": "interpreter %s died (exit %r)" % (interp, ex.returncode), "interp": interp})
            continue
        out.per_interp[interp] += 1
        T.PY39[0] = interp == "3.9"
        v = judge(tree, res)
        if v:
            viols.append({"desc": "%s on %s" % (v, interp), "interp": interp})
    cl = T.tree_classes(tree)
    if tree.get("ml_text"):
        cl.add("multi_line_reprs_and_descriptions")
    if tree.get("uni_text"):
        cl.add("non_ascii_reprs_and_descriptions")
    nontrivial = bool(cl & {"context_with_inner_and_children", "child_stack_populated", "hidden_frame", "hidden_context",
                            "hidden_frame_inside_context"})
    out.note_case(tree, nontrivial, classes=sorted(cl), n_eval=8 * len(interps))
    return viols


def judge(tree, res):
    if res.get("raised"):
        return "format raised: %s" % res["raised"][-400:]
    for key, lines in res["fmt"].items():
        a, sc, sh = (ch == "1" for ch in key)
        for l in lines:
            if not l.endswith("\n") or l.count("\n") != 1 or "\r" in l:
                return "format(%s) element is not exactly one newline-terminated line: %r" % (key, l)
        for msg in res.get("error_messages", []):
            if msg not in "".join(lines):
                return "format(%s) does not mention %r, which is part of the recorded error's chain / group" % (key, msg)
        if not a:
            text = [l[:-1] for l in lines]
            try:
                got = T.read_stack(text)
            except T.ReadError as ex:
                return "format(%s) cannot be read back: %s\n%s" % (key, ex, "".join(lines))
            exp = T.abs_stack(tree, sc, sh)
            if got != exp:
                return "format(%s) reads back as a different tree:\n got %r\n exp %r\n%s" % (key, got, exp, "".join(lines))
            asc = res["fmt"]["1" + key[1:]]
            if [T.to_ascii(l) for l in lines] != asc:
                return "ascii_only output is not the marker-for-marker image of the Unicode output (%s):\n%s---\n%s" % (
                    key, "".join(lines), "".join(asc))
            if not tree.get("uni_text") and any(ord(ch) > 127 for l in asc for ch in l):
                return "ascii_only output contains non-ASCII characters (%s)" % key
    if res["str"] != "".join(res["default"]) or res["default"] != res["fmt"]["010"]:
        return "str(x) is not the concatenation of format() with default options"
    for p in res.get("parts", []):
        if p["str"] != "".join(p["fmt"]) or any((not l.endswith("\n")) or l.count("\n") != 1 for l in p["fmt"]):
            return "%s.format()/str() malformed: %r" % (p["what"], p["fmt"][:3])
    return None


def shard(arg):
    out = Outcome()
    interps = arg["interps"]
    with WorkerSet(interps, hooks=False) as ws:
        from hypothesis import strategies as st
        # a quarter of the trees carry multi-line free text: descriptions with a line break, roots and leaves whose repr
        # spans several lines
        # and a quarter text that is not ASCII (ascii_only replaces the prefix markers, nothing else)
        strat = st.tuples(T.trees(), st.sampled_from([None, None, "ml_text", "uni_text"])).map(
            lambda p: dict(p[0], **{p[1]: True}) if p[1] else p[0])
        fail = hyp_search(strat, lambda t: check_tree(ws, interps, t, out), seed=arg["seed"], max_examples=arg["n"],
                          shrink=arg["shrink"])
        if fail:
            v = fail["violations"][0]
            out.violation(v["desc"], fail["case"], v["interp"], flaky=fail["flaky"])
    return out


def run(ctx):
    nshards = ctx.pick(8, 16)
    args = [{"interps": ALL, "seed": ctx.shard_seed(i), "n": ctx.pick(640, 64000) // nshards, "shrink": not ctx.quick}
            for i in range(nshards)]
    out = run_shards("checks.c18", "shard", args)
    out.extra["interpreters"] = ALL
    out.extra["option_combinations_per_tree"] = 8
    return out


def replay(ctx, data):
    out = Outcome()
    interps = [data["interp"]] if data.get("interp") in ALL else ALL
    with WorkerSet(interps, hooks=False) as ws:
        for v in check_tree(ws, interps, data["case"], out):
            out.violation(v["desc"], data["case"], v["interp"])
    return out
