"""C19 - standard-library summaries and flat format faithfully project the Stack."""
from hypothesis import strategies as st

from vlib import treestrat as T
from vlib.wk.treepool import pool_filename
from vlib.driver import Outcome, run_shards
from vlib.hyp import hyp_search
from vlib.workers import ALL, WorkerDied, WorkerSet

PROPERTY = "C19"
LEVEL = "exploration"
RULE = ("(Plus real stacks whose exit stack holds 1-3 registrations any of which cannot be described - raising repr of the manager or of a callback argument: the summary and the flat format still have one entry per registration.) The same generated Stack trees as C18 (depth <= 4, width <= 3, hidden flags also inside contexts, exiting last "
        "contexts, inner stacks, child contexts and child stacks), each summarised, under an ambient sys.tracebacklimit that is unset / 0 / 1 / 2, with all 8 combinations of show_contexts x "
        "show_hidden_frames x capture_locals on CPython 3.9-3.12. Oracle: a reference projection written from the "
        "documentation gives the expected (filename, lineno, function-name prefix) entry list - one per visible frame; with "
        "contexts, before each frame one entry at the with line per visible context followed by its inner stack and child "
        "contexts recursively, the frame's own entry omitted only when its last context is exiting; the real summary must "
        "match entry for entry, be a StackSummary, survive pickle round trip, reach no frame object, and format_flat() must be "
        "header + summary.format() + leaf line + error lines. Non-trivial: tree with a hidden element inside a context or an "
        "exiting last context; distinct = distinct IR. Second leg: REAL stacks - extract() of a frame holding a generated "
        "tree of plain / generator-based managers and exit stacks (the C09 space), observed suspended in the body or inside a chosen manager's __aexit__, with 0-3 elements inside contexts marked "
        "hidden afterwards - summarised in all 8 combinations and compared with the same projection computed over the real "
        "Stack object, plus pickle and format_flat decomposition.")
ASSUMPTIONS = [
    "for context entries only filename, line and the function-name prefix are asserted (the parenthesised annotation is not)",
]


def expected_entries(stack, sc, sh):
    out = []
    for f in stack["frames"]:
        if f["hide"] and not sh:
            continue
        fname, ln, fn = pool_filename(f["fn"]), T.frame_lineno(f), "fn%d" % f["fn"]
        if sc:
            for c in f["contexts"]:
                ctx_entries(c, fname, ln, fn, sh, out)
            # (omitted when the exiting last context's entry stands in for it - not when that context is hidden and left out:
            # every non-hidden frame has an entry)
            if not (f["contexts"] and f["contexts"][-1]["is_exiting"] and (sh or not f["contexts"][-1]["hide"])):
                out.append(("frame", fname, ln, fn))
        else:
            out.append(("frame", fname, ln, fn))
    return out


def ctx_entries(c, fname, frame_ln, fn, sh, out):
    if c["hide"] and not sh:
        return
    out.append(("ctx", fname, c["start_line"] or frame_ln, fn))
    if c["inner"] is not None:
        out.extend(expected_entries(c["inner"], True, sh))
    for k in c["children"]:
        if "frames" not in k:
            ctx_entries(k, fname, frame_ln, fn, sh, out)


def judge(tree, res):
    if res.get("raised"):
        return "summary raised: %s" % res["raised"][-500:]
    if res["problems"]:
        return res["problems"][0]
    for key, got in res["summ"].items():
        sc, sh, cl = (ch == "1" for ch in key)
        exp = expected_entries(tree, sc, sh)
        if len(got) != len(exp):
            return "as_stdlib_summary(%s): %d entries, expected %d\n got %r\n exp %r" % (key, len(got), len(exp), got, exp)
        for g, e in zip(got, exp):
            kind, fname, ln, fn = e
            ok = g[0] == fname and g[1] == ln and (g[2] == fn if kind == "frame" else g[2].startswith(fn))
            if not ok:
                return "as_stdlib_summary(%s): entry %r, expected %r\n got %r\n exp %r" % (key, g, e, got, exp)
            if (g[4] is not None) != cl:
                return "as_stdlib_summary(%s): locals captured=%r but capture_locals=%r" % (key, g[4] is not None, cl)
    if res["default"] != res["summ"]["000"]:
        return "default options of as_stdlib_summary are not (False, False, False)"
    for key, d in res["flat"].items():
        flat, sf = d["flat"], d["summ_fmt"]
        if not flat or not flat[0].startswith("stackscope.Stack") or not flat[0].endswith("\n"):
            return "format_flat: bad header %r" % flat[:1]
        # the root / leaf may be a plain token string or an object whose repr carries the token
        if (tree["root"] is not None) != (tree["root"] is not None and " of " in flat[0] and tree["root"] in flat[0]):
            return "format_flat: header does not name the root: %r" % flat[0]
        rest = flat[1:]
        if rest[:len(sf)] != sf:
            return "format_flat(show_contexts=%s) is not header + StackSummary.format():\n%r\nvs\n%r" % (key, rest, sf)
        rest = rest[len(sf):]
        if tree["leaf"] is not None:
            if not rest or "Target of innermost frame" not in rest[0] or tree["leaf"] not in rest[0]:
                return "format_flat: leaf line missing: %r" % rest[:1]
            rest = rest[1:]
        if tree["error"] is not None:
            if not rest or "Error" not in rest[0]:
                return "format_flat: error lines missing: %r" % rest[:1]
            text = "".join(rest)
            for msg in res.get("error_messages", []):
                if msg not in text:
                    return "format_flat: the error lines do not mention %r (part of the recorded error's chain / group):\n%s" % (
                        msg, text[:600])
        elif rest:
            return "format_flat: unexpected trailing lines %r" % rest
        if any((not l.endswith("\n")) for l in flat):
            return "format_flat: element not newline-terminated"
    if res["flat_default"] != res["flat"]["0"]["flat"]:
        return "format_flat default is not show_contexts=False"
    for i, fr in enumerate(res["frames"]):
        f = tree["frames"][i]
        fname, ln, fn = pool_filename(f["fn"]), T.frame_lineno(f), "fn%d" % f["fn"]
        if fr["one"][0][:3] != [fname, ln, fn]:
            return "Frame.as_stdlib_summary: %r" % fr["one"]
        exp = []
        for c in f["contexts"]:
            ctx_entries(c, fname, ln, fn, False, exp)
        if not (f["contexts"] and f["contexts"][-1]["is_exiting"] and not f["contexts"][-1]["hide"]):
            exp.append(("frame", fname, ln, fn))
        if [(g[0], g[1]) for g in fr["with"]] != [(e[1], e[2]) for e in exp]:
            return "Frame.as_stdlib_summary_with_contexts: got %r expected %r" % (fr["with"], exp)
    return None


def check_tree(ws, interps, tree, out):
    viols = []
    for interp in interps:
        try:
            res = ws[interp].request({"op": "trees.c19", "tree": tree})
        except WorkerDied as ex:
            viols.append({"desc": "interpreter %s died (exit %r)" % (interp, ex.returncode), "interp": interp})
            continue
        out.per_interp[interp] += 1
        T.PY39[0] = interp == "3.9"
        v = judge(tree, res)
        if v:
            viols.append({"desc": "%s on %s" % (v, interp), "interp": interp})
    cl = T.tree_classes(tree)
    if tree.get("tblimit") is not None:
        cl.add("sys.tracebacklimit=%d" % tree["tblimit"])
    nontrivial = bool(cl & {"hidden_frame_inside_context", "hidden_context", "exiting_last_context"})
    out.note_case(tree, nontrivial, classes=sorted(cl), n_eval=8 * len(interps))
    return viols


def real_cases():
    from hypothesis import strategies as st
    from checks import c09
    def mk(t):
        ids = c09.plain_ids(t[0], []) if "_unentered" not in repr(t[0]) else []
        return {"root": t[0], "hide_marks": t[1], "exiting": ids[t[2] % len(ids)] if ids and t[2] % 2 else None}
    return st.tuples(c09.roots(), st.lists(st.integers(0, 10 ** 6), min_size=0, max_size=3), st.integers(0, 10 ** 6)).map(mk)


def check_real(ws, interps, case, out):
    viols = []
    hidden = 0
    for interp in interps:
        try:
            res = ws[interp].request({"op": "ctxtree.summary", "root": case["root"], "hide_marks": case["hide_marks"],
                                      "exiting": case.get("exiting")})
        except WorkerDied as ex:
            viols.append({"desc": "interpreter %s died (exit %r)" % (interp, ex.returncode), "interp": interp})
            continue
        out.per_interp[interp] += 1
        hidden = res["stats"]["hidden"]
        if res["stats"].get("exiting"):
            out.hist["real_stack.suspended_in_an_exiting_manager"] += 1
        out.extra["real_stack_summaries"] = out.extra.get("real_stack_summaries", 0) + res["stats"]["combos"]
        if res["obs"]:
            viols.append({"desc": "real stack: %s on %s: %r" % (res["obs"][0]["kind"], interp, res["obs"][0]), "interp": interp})
    out.note_case(case, hidden > 0, classes=["real_stack"] + (["real_stack.hidden_inside_context"] if hidden else []),
                  n_eval=8 * len(interps))
    return viols


BAD_KINDS = ["plain", "badrepr", "badarg", "cb", "badattr"]


def check_badchild(ws, interps, kinds, out):
    """a real Stack with child contexts that could not be described (exit-stack registrations whose repr raises): extract()
    returns it and format() renders it; its summary has one entry per registration all the same"""
    viols = []
    for interp in interps:
        try:
            res = ws[interp].request({"op": "ctxtree.badchild", "kinds": kinds, "summary": True})
        except WorkerDied as ex:
            viols.append({"desc": "interpreter %s died (exit %r)" % (interp, ex.returncode), "interp": interp})
            continue
        out.per_interp[interp] += 1
        bad = [o for o in res["obs"] if o["kind"].startswith(("summary", "format_flat"))]
        if bad:
            viols.append({"desc": "real stack with undescribed child contexts: %s on %s: %r" % (bad[0]["kind"], interp, bad[0]),
                          "interp": interp})
    out.note_case({"badchild": kinds}, any(k.startswith("bad") for k in kinds),
                  classes=["real_stack.exit_stack_with_undescribable_registration"], n_eval=2 * len(interps))
    return viols


def shard(arg):
    out = Outcome()
    interps = arg["interps"]
    with WorkerSet(interps, hooks=False) as ws:
        for kinds in arg.get("badchild", []):
            for v in check_badchild(ws, interps, kinds, out):
                out.violation(v["desc"], {"badchild": kinds}, v["interp"])
        if out.violations:
            return out
        fail = hyp_search(real_cases(), lambda c: check_real(ws, interps, c, out), seed=arg["seed"] + 7,
                          max_examples=arg["n"] // 3, shrink=arg["shrink"])
        if fail:
            v = fail["violations"][0]
            out.violation(v["desc"], fail["case"], v["interp"], flaky=fail["flaky"])
            return out
        with_limit = st.tuples(T.trees(), st.sampled_from([None, None, None, 0, 1, 2])).map(
            lambda p: dict(p[0], tblimit=p[1]) if p[1] is not None else p[0])
        fail = hyp_search(with_limit, lambda t: check_tree(ws, interps, t, out), seed=arg["seed"], max_examples=arg["n"],
                          shrink=arg["shrink"])
        if fail:
            v = fail["violations"][0]
            out.violation(v["desc"], fail["case"], v["interp"], flaky=fail["flaky"])
    return out


def run(ctx):
    nshards = ctx.pick(8, 16)
    import itertools
    bad = [list(k) for n in (1, 2, 3) for k in itertools.product(BAD_KINDS, repeat=n)]
    args = [{"interps": ALL, "seed": ctx.shard_seed(i), "n": ctx.pick(480, 48000) // nshards, "shrink": not ctx.quick,
             "badchild": bad[i::nshards]} for i in range(nshards)]
    out = run_shards("checks.c19", "shard", args)
    out.extra["interpreters"] = ALL
    return out


def replay(ctx, data):
    out = Outcome()
    interps = [data["interp"]] if data.get("interp") in ALL else ALL
    with WorkerSet(interps, hooks=False) as ws:
        if "badchild" in data["case"]:
            for v in check_badchild(ws, interps, data["case"]["badchild"], out):
                out.violation(v["desc"], data["case"], v["interp"])
            return out
        fn = check_real if "hide_marks" in data["case"] else check_tree
        for v in fn(ws, interps, data["case"], out):
            out.violation(v["desc"], data["case"], v["interp"])
    return out
