"""C13 - extraction options are scoped to their call tree and thread; stubs honoured."""
from hypothesis import strategies as st

from vlib.driver import Outcome, run_shards
from vlib.hyp import hyp_search
from vlib.workers import ALL, WorkerDied, WorkerSet

PROPERTY = "C13"
LEVEL = "exploration"
RULE = ("(Invocation kind gcmx: fill_context of an EXITING generator-based manager that has a generator hook - the contextlib glue then makes a helper extraction of its own, whose hooks are still hooks of the enclosing call.) Entry points: extract(item), extract_outermost, extract_child, fill_context and the running-stack entry points extract_since(frame), extract_until(frame, limit=int), extract_until(frame, limit=frame) and extract(StackSlice(...)), each taking its own option pair. "
        "Well-nested call trees (depth <= 4, fan-out <= 2) whose nodes are extract / extract_outermost / extract_child / "
        "fill_context invocations with their own (with_contexts, recurse_child_tasks) pair, children invoked from inside the "
        "hook the invocation triggers, optionally raising a BaseException or an ordinary exception through the invocation; "
        "single-threaded, and 2-4 threads each running such a tree under a generated cooperative schedule over the hook entry "
        "points (so extractions with different options are in progress at the same time). CPython 3.9-3.12. Oracle: at every "
        "hook entry and after every child returns (normally or by exception) the options in force, observed through public "
        "behaviour only (extract_child(task, for_task=True) is a frameless stub with only root iff recursion was not requested; "
        "a frame with an active manager has empty contexts iff with_contexts=False; the frames are the same either way), equal "
        "the innermost enclosing extract's on that thread; outside any extraction extract_child raises, also after trees that "
        "ended by exception, also on an uninvolved thread. Non-trivial: a tree with >= 2 nested levels that differ in options; "
        "threaded: a schedule during which two threads were inside extractions with different options; distinct = distinct IR.")
ASSUMPTIONS = [
    "interleavings are explored at hook-entry granularity (hooks registered through the public API), not bytecode granularity",
]


def nodes():
    leaf = st.fixed_dictionaries({
        "kind": st.sampled_from(["extract", "extract", "outermost", "child", "fill", "gcm", "gcmx", "since", "until_int", "until_frame", "slice"]),
        "wc": st.booleans(), "rc": st.booleans(), "kids": st.just([]),
        "boom": st.sampled_from([None, None, None, "base", "exc"])})
    return st.recursive(leaf, lambda ch: st.fixed_dictionaries({
        "kind": st.sampled_from(["extract", "extract", "extract", "outermost", "child", "fill", "gcm", "gcmx", "since", "until_int",
                                 "until_frame", "slice"]),
        "wc": st.booleans(), "rc": st.booleans(), "kids": st.lists(ch, min_size=1, max_size=2),
        "boom": st.sampled_from([None, None, None, "base", "exc"])}), max_leaves=8)


def threaded():
    return st.fixed_dictionaries({"trees": st.lists(nodes(), min_size=2, max_size=4),
                                  "schedule": st.lists(st.integers(0, 11), min_size=4, max_size=40)})


def classes(node, acc=None, depth=1):
    acc = acc if acc is not None else set()
    acc.add("kind." + node["kind"])
    if node["boom"]:
        acc.add("boom." + node["boom"])
    acc.add("depth>=%d" % min(depth, 4))
    for k in node["kids"]:
        classes(k, acc, depth + 1)
    return acc


def check_single(ws, interps, tree, out):
    viols = []
    nontrivial = False
    for interp in interps:
        try:
            res = ws[interp].request({"op": "opts.single", "tree": tree})
        except WorkerDied as ex:
            viols.append({"desc": "interpreter %s died (exit %r)" % (interp, ex.returncode), "interp": interp})
            continue
        out.per_interp[interp] += 1
        out.extra["observations"] = out.extra.get("observations", 0) + res["stats"]["observations"]
        nontrivial = nontrivial or res["stats"]["levels_differ"]
        if res["obs"]:
            viols.append({"desc": "%s on %s: %r" % (res["obs"][0]["kind"], interp, res["obs"][0]), "interp": interp})
    out.note_case(tree, nontrivial, classes=sorted(classes(tree)) + ["single_thread"], n_eval=len(interps))
    return viols


def check_threads(ws, interps, case, out):
    viols = []
    nontrivial = False
    for interp in interps:
        try:
            res = ws[interp].request({"op": "opts.threads", "trees": case["trees"], "schedule": case["schedule"]})
        except WorkerDied as ex:
            viols.append({"desc": "interpreter %s died (exit %r)" % (interp, ex.returncode), "interp": interp})
            continue
        out.per_interp[interp] += 1
        out.extra["observations"] = out.extra.get("observations", 0) + res["stats"]["observations"]
        out.extra["schedule_steps"] = out.extra.get("schedule_steps", 0) + res["stats"]["steps"]
        if res["stats"]["overlaps"]:
            nontrivial = True
        if res["obs"]:
            viols.append({"desc": "%s on %s: %r" % (res["obs"][0]["kind"], interp, res["obs"][0]), "interp": interp})
    out.note_case(case, nontrivial, classes=["threads.%d" % len(case["trees"])] + (["threads.overlap_with_different_options"] if nontrivial else []),
                  n_eval=len(interps))
    return viols


def shard(arg):
    out = Outcome()
    interps = arg["interps"]
    with WorkerSet(interps, hooks=False) as ws:
        fail = hyp_search(nodes(), lambda t: check_single(ws, interps, t, out), seed=arg["seed"], max_examples=arg["n"],
                          shrink=arg["shrink"])
        if fail:
            v = fail["violations"][0]
            out.violation(v["desc"], fail["case"], v["interp"], flaky=fail["flaky"])
        else:
            fail = hyp_search(threaded(), lambda c: check_threads(ws, interps, c, out), seed=arg["seed"] + 1,
                              max_examples=arg["n_thr"], shrink=arg["shrink"])
            if fail:
                v = fail["violations"][0]
                out.violation(v["desc"], fail["case"], v["interp"], flaky=fail["flaky"])
    return out


def run(ctx):
    nshards = ctx.pick(8, 16)
    args = [{"interps": ALL, "seed": ctx.shard_seed(i), "n": ctx.pick(400, 48000) // nshards,
             "n_thr": ctx.pick(120, 9600) // nshards, "shrink": not ctx.quick} for i in range(nshards)]
    out = run_shards("checks.c13", "shard", args)
    out.extra["interpreters"] = ALL
    return out


def replay(ctx, data):
    out = Outcome()
    interps = [data["interp"]] if data.get("interp") in ALL else ALL
    case = data["case"]
    with WorkerSet(interps, hooks=False) as ws:
        vs = check_threads(ws, interps, case, out) if "trees" in case else check_single(ws, interps, case, out)
        for v in vs:
            out.violation(v["desc"], case, v["interp"])
    return out
