"""C20 - fallback (referents) analysis is a sound ordered over-approximation; failures only warn."""
from vlib import g1check

PROPERTY = "C20"
LEVEL = "exploration"
RULE = ("G1 with-programs (generator / coroutine / async generator) observed at every suspension point with "
        "set_trickery_enabled(False) on CPython 3.9-3.12. Oracle against the managers' shadow stack: every truly active "
        "manager occurs, in order, with the right obj and is_async; there is an is_exiting entry (last, right obj) iff an exit "
        "call is in progress; any extra entry's obj is the manager this frame is entering/exiting right now; no warning, no "
        "error. A program is non-trivial when >= 1 observation had >= 2 active managers or was made during an "
        "exception-path exit; distinct = distinct IR.")
ASSUMPTIONS = [
    "running frames are outside the fallback's documented reach on CPython and are not asserted",
    "managers' __exit__/__aexit__ are ordinary methods named __exit__/__aexit__ (the documented precondition of the fallback)",
]

CFG = {
    "module": "checks.c20",
    "modes": ["ref"],
    "prog_kinds": ["gen", "coro", "agen"],
    "kinds_violation": ["ref."],
}


def classify(prog, stats, feats):
    classes = set()
    for k in ("ref.ge2", "ref.exiting", "ref.exiting_exc_path", "ref.has_extra", "ref.nonempty"):
        if stats.get(k):
            classes.add("obs." + k)
    return bool(stats.get("ref.ge2") or stats.get("ref.exiting_exc_path")), classes


def run(ctx):
    return g1check.run(ctx, CFG, quick_n=960, thorough_n=60000, quick_table=300)


def replay(ctx, data):
    return g1check.replay(ctx, CFG, data)
