"""C20 - fallback (referents) analysis is a sound ordered over-approximation; failures only warn."""
from vlib import g1check

PROPERTY = "C20"
LEVEL = "exploration"
RULE = ("(Mode leg, run first: the first-use self-test is made to fail once by a trace function; set_trickery_enabled(None) afterwards must bring auto-detection back - trickery in force on CPython.) Also G2 await / yield-from / async-generator chains in which some frames hold managers open (coroutine, generator and async-generator frames reached through other frames: await, asend, __anext__, async for, yield from), every frame of the extracted stack listing exactly its own open managers (referents mode). "
        "Also a leg over managers the harness cannot instrument: linear nests (1-4 with / async with statements, 1-3 items; a third of the items enter the manager object of an earlier item again - re-entrant / reusable managers, the same object active in two blocks of one frame - and async items may be managers whose __aexit__ suspends, giving observation points with an exiting context) of standard-library managers (and, in trickery mode, a MagicMock used as a manager, and a type whose __exit__ is a callable object whose __getattr__ raises RuntimeError: the exit callable is no bound method, so its context may have obj None, nothing else may suffer), seven kinds of them implemented in C (threading.Lock / RLock, StringIO, BytesIO, memoryview, decimal.localcontext, file objects), the others in Python (nullcontext, suppress, closing, ExitStack, Condition, Semaphore, redirect_stdout, AsyncExitStack, aclosing), observed at every suspension point in referents mode against the statically known active set (identity, order, is_async). "
        "G1 with-programs (generator / coroutine / async generator; a quarter of them holding a dead weakref proxy, a lazy object whose __class__ is computed, a bound method of a nameless callable, of a proxy whose __getattr__ raises, and of a callable whose __name__ refuses comparison, in their locals) observed at every suspension point with "
        "set_trickery_enabled(False) on CPython 3.9-3.12. Oracle against the managers' shadow stack: every truly active "
        "manager occurs, in order, with the right obj and is_async; there is an is_exiting entry (last, right obj) iff an exit "
        "call is in progress; any extra entry's obj is the manager this frame is entering/exiting right now; no warning, no "
        "error. A program is non-trivial when >= 1 observation had >= 2 active managers or was made during an "
        "exception-path exit, or an injected fault fired. Fault leg: at one suspension point per program, a "
        "sys.settrace injector raises at (a stride of <= 40 of) every line event executed inside the trickery analysis "
        "(stackscope._lowlevel* functions): contexts_active_in_frame must never raise; with an InspectionWarning the result "
        "must obey the same over-approximation relation, without one (the interpreter absorbed the exception) it must be "
        "exact. Mode leg: generated sequences of set_trickery_enabled(True|False|None) and extractions issued from 1-3 "
        "threads; the mode in force (read off a reference frame: varname/start_line populated or not) must equal the last "
        "value set, None meaning trickery on CPython; plus a forced interleaving in which one thread is paused inside the first-use self-test (auto-detect state) while another calls set_trickery_enabled(v): afterwards v must be in force. distinct = distinct IR.")
ASSUMPTIONS = [
    "running frames are outside the fallback's documented reach on CPython and are not asserted",
    "managers' __exit__/__aexit__ are ordinary methods named __exit__/__aexit__ (the documented precondition of the fallback)",
]

CFG = {
    "module": "checks.c20",
    "modes": ["ref", "inject"],
    "inject": [1, 16],      # per program: 1 suspension point gets a sweep of <= 40 injected faults
    "prog_kinds": ["gen", "coro", "agen"],
    "kinds_violation": ["ref."],
}


def classify(prog, stats, feats):
    classes = set()
    for k in ("ref.ge2", "ref.exiting", "ref.exiting_exc_path", "ref.has_extra", "ref.nonempty"):
        if stats.get(k):
            classes.add("obs." + k)
    if stats.get("inject.fired"):
        classes.add("obs.injected_fault_fired")
    if stats.get("inject.absorbed"):
        classes.add("obs.injected_fault_absorbed_by_interpreter")
    return bool(stats.get("ref.ge2") or stats.get("ref.exiting_exc_path") or stats.get("inject.fired")), classes


def mode_cases():
    from hypothesis import strategies as st
    step = st.one_of(st.tuples(st.integers(0, 2), st.just("set"), st.sampled_from([True, False, None])),
                     st.tuples(st.integers(0, 2), st.just("extract"), st.none()),
                     st.tuples(st.integers(0, 2), st.just("extract"), st.none()))
    return st.fixed_dictionaries({"nthreads": st.integers(1, 3),
                                  "steps": st.lists(step.map(list), min_size=2, max_size=14)})


def mode_shard(arg):
    from vlib.driver import Outcome
    from vlib.hyp import hyp_search
    from vlib.workers import ALL, WorkerDied, WorkerSet
    out = Outcome()
    with WorkerSet(ALL, hooks=False) as ws:
        if arg.get("race_vals"):
            # None after a self-test that failed once must really restore auto-detection (first: the race legs below
            # presuppose that a reset gets the self-test to run again)
            case = {"failed_selftest": True}
            for interp in ALL:
                res = ws[interp].request({"op": "modes.failed_selftest"})
                out.per_interp[interp] += 1
                if res["obs"]:
                    out.violation("%s on %s: %r" % (res["obs"][0]["kind"], interp, res["obs"][0]), case, interp)
            out.note_case(case, True, classes=["failed_selftest_then_None"], n_eval=len(ALL))
            if out.violations:
                return out
        for val in arg.get("race_vals", []):
            case = {"selftest_race": True, "val": val}
            for interp in ALL:
                for rep in range(2):
                    res = ws[interp].request({"op": "modes.selftest_race", "val": val})
                    out.per_interp[interp] += 1
                    if res["obs"]:
                        out.violation("%s on %s: %r" % (res["obs"][0]["kind"], interp, res["obs"][0]), case, interp)
            out.note_case(case, True, classes=["selftest_race"], n_eval=2 * len(ALL))
        if arg.get("race_vals"):
            # ... and a reset to auto-detection arriving while another extraction is reading the setting
            case = {"reset_race": True}
            for interp in ALL:
                res = ws[interp].request({"op": "modes.reset_race"})
                out.per_interp[interp] += 1
                if res["obs"]:
                    out.violation("%s on %s: %r" % (res["obs"][0]["kind"], interp, res["obs"][0]), case, interp)
            out.note_case(case, True, classes=["reset_race"], n_eval=len(ALL))

        def chk(case):
            viols = []
            for interp in ALL:
                try:
                    res = ws[interp].request(dict(case, op="modes.run"))
                except WorkerDied as ex:
                    viols.append({"desc": "interpreter %s died (exit %r)" % (interp, ex.returncode), "interp": interp})
                    continue
                out.per_interp[interp] += 1
                out.extra["mode_checks"] = out.extra.get("mode_checks", 0) + res["stats"]["mode_checks"]
                if res["obs"]:
                    viols.append({"desc": "%s on %s: %r" % (res["obs"][0]["kind"], interp, res["obs"][0]), "interp": interp})
            sets = [s for s in case["steps"] if s[1] == "set"]
            out.note_case(case, len(sets) >= 2 and case["nthreads"] >= 2, classes=["mode_sequence",
                          "mode_sequence.threads.%d" % case["nthreads"]], n_eval=len(ALL))
            return viols
        fail = hyp_search(mode_cases(), chk, seed=arg["seed"], max_examples=arg["n"], shrink=arg["shrink"])
        if fail:
            v = fail["violations"][0]
            out.violation(v["desc"], fail["case"], v["interp"], flaky=fail["flaky"])
    return out


def run(ctx):
    from vlib.driver import run_shards
    out = g1check.run(ctx, CFG, quick_n=640, thorough_n=60000, quick_table=300)
    n = ctx.pick(4, 16)
    out.merge(run_shards("checks.c20", "mode_shard", [{"seed": ctx.shard_seed("modes", i), "n": ctx.pick(160, 16000) // n,
                                                       "shrink": not ctx.quick,
                                                       "race_vals": [False, True, None] if i == 0 else []} for i in range(n)]))
    from vlib import cmgrleg
    cmgrleg.run(ctx, out, "ref.")
    from vlib import chainctxleg
    chainctxleg.run(ctx, out, "ref.")
    return out


def replay(ctx, data):
    if "chain_contexts" in data["case"]:
        from vlib import chainctxleg
        return chainctxleg.replay(ctx, data, "ref.")
    if "stdlib_managers" in data["case"]:
        from vlib import cmgrleg
        return cmgrleg.replay(ctx, data, "ref.")
    if data["case"].get("failed_selftest"):
        from vlib.driver import Outcome
        from vlib.workers import ALL, WorkerSet
        out = Outcome()
        with WorkerSet(ALL, hooks=False) as ws:
            for interp in ALL:
                res = ws[interp].request({"op": "modes.failed_selftest"})
                out.note_case(data["case"], True)
                if res["obs"]:
                    out.violation("%s on %s: %r" % (res["obs"][0]["kind"], interp, res["obs"][0]), data["case"], interp)
        return out
    if data["case"].get("reset_race"):
        from vlib.driver import Outcome
        from vlib.workers import ALL, WorkerSet
        out = Outcome()
        with WorkerSet(ALL, hooks=False) as ws:
            for interp in ALL:
                res = ws[interp].request({"op": "modes.reset_race"})
                out.note_case(data["case"], True)
                if res["obs"]:
                    out.violation("%s on %s: %r" % (res["obs"][0]["kind"], interp, res["obs"][0]), data["case"], interp)
        return out
    if data["case"].get("selftest_race"):
        from vlib.driver import Outcome
        from vlib.workers import ALL, WorkerSet
        out = Outcome()
        with WorkerSet(ALL, hooks=False) as ws:
            for interp in ALL:
                res = ws[interp].request({"op": "modes.selftest_race", "val": data["case"]["val"]})
                out.note_case(data["case"], True)
                if res["obs"]:
                    out.violation("%s on %s: %r" % (res["obs"][0]["kind"], interp, res["obs"][0]), data["case"], interp)
        return out
    if "steps" in data["case"]:
        from vlib.driver import Outcome
        from vlib.workers import ALL, WorkerSet
        out = Outcome()
        with WorkerSet(ALL, hooks=False) as ws:
            for interp in ALL:
                res = ws[interp].request(dict(data["case"], op="modes.run"))
                out.note_case(data["case"], True)
                if res["obs"]:
                    out.violation("%s on %s: %r" % (res["obs"][0]["kind"], interp, res["obs"][0]), data["case"], interp)
        return out
    return g1check.replay(ctx, CFG, data)
