#!/bin/bash
# quick tier at several seeds; prints only problems and a final tally
cd "$(dirname "$0")/.."
bad=0
for sd in "$@"; do
  out=$(VERIF_SEED=$sd tools/run_all.sh quick 2>&1 | grep -v KNOWN-FINDING)
  n=$(echo "$out" | grep -c "violations=0")
  p=$(echo "$out" | grep -E "VIOLATION|HARNESS|exit [12]" | head -5)
  echo "seed $sd: $n/20 clean"; [ -n "$p" ] && { echo "$p"; bad=1; }
done
exit $bad
