import json, re, sys, glob, os
pid, rnd = sys.argv[1], sys.argv[2]
wt = "/tmp/seed%s_%s" % (rnd, pid)
d = [json.loads(l) for l in open('/verif/properties.jsonl')]
p = [x for x in d if x['id'] == pid][0]
prop = "Property %s: %s\n\nStatement: %s\n\nQuantifier (what it ranges over): %s\n" % (pid, p['title'], p['statement'], p['quantifier']['text'])
notes = []
for path in sorted(glob.glob('/verif/seeded/%s*/meta.json' % pid)):
    m = json.load(open(path))
    diff = open(os.path.join(os.path.dirname(path), 'patch.diff')).read()
    files = sorted(set(re.findall(r'^\+\+\+ b/(\S+)', diff, re.M)))
    hunks = sorted(set(h.strip() for h in re.findall(r'^@@.*@@ (.*)$', diff, re.M)))
    notes.append("- modified %s [%s]; needed: %s" % (", ".join(files), "; ".join(hunks)[:140], m["needs_to_manifest"]))
print(f"""You are helping evaluate a verification harness by "seeding" a realistic defect into a Python library.

The library is `stackscope` (pure-Python stack introspection: reconstructs call stacks and active context managers for coroutines, generators, threads, greenlets via bytecode and ctypes frame analysis). You have your OWN scratch git worktree of it at {wt} (a detached checkout; package source in {wt}/stackscope, docs in {wt}/docs, tests in {wt}/stackscope/_tests). Work ONLY inside {wt}. Do not read, list or modify anything under /repo or /verif, and do not touch any other /tmp/seed* directory.

Here is a semantic property the library is supposed to satisfy:

{prop}

YOUR TASK: make ONE small change to the library source (under {wt}/stackscope, not the tests) that BREAKS this property while (a) the package still imports and (b) the existing test suite still passes. The change should look like a plausible maintainer mistake / refactoring slip / "optimisation" - not sabotage. IMPORTANT: prefer a change that needs something SPECIFIC to manifest - a particular interleaving, a fault at a particular point, a multi-step sequence of operations, an unusual input shape, a particular interpreter version, or two cooperating sites that each look fine alone - NOT one that ordinary use would expose at once, and not one that any trivial smoke test would catch. The change must violate THIS property (as worded above), not merely some other expectation about the library.

DIVERSITY REQUIREMENT: earlier seeded changes for this property exist:
{chr(10).join(notes)}
Your change must be of a DIFFERENT kind from all of them: a different function or mechanism AND a different trigger condition - aim at a clause of the property or a part of its quantifier that none of them touches. Please keep the effort bounded (aim to finish within about 20 minutes).

Environment (no network): run the test suite with
    cd {wt} && /venv/bin/python -m pytest -q -p no:cacheprovider stackscope
(52 passed, 1 skipped on the unmodified tree; /venv/bin/python is CPython 3.12 with trio, greenlet, greenback installed; running from the worktree root imports the worktree's copy of stackscope - verify with `python -c "import stackscope; print(stackscope.__file__)"`). Other interpreters, if your change is version specific: /root/.pyenv/versions/3.9.18/bin/python, 3.10.13, 3.11.7 (bare: use PYTHONPATH={wt}:/tmp/seed_deps/te and for 3.9/3.10 additionally :/tmp/seed_deps/shims so that `import stackscope` works there). The library source contains guarded no-op yield points (`_verif_hook(...)` calls, active only when the environment variable STACKSCOPE_VERIF=1 is set at import time, with `stackscope._verif.callback` as the callback slot); a demo may use them to force an interleaving deterministically.

DELIVERABLES, all inside {wt}/seed/ :
  1. patch.diff   - output of `git -C {wt} diff -- stackscope` (the change to the library only)
  2. demo.py      - a small standalone program that exits 0 (prints OK) on the UNMODIFIED library and exits non-zero (prints what went wrong) WITH your change, demonstrating the property violation through the public API. It must insert {wt} (or the path given in env var SS_PATH if set) at the front of sys.path before importing stackscope, so it can be pointed at either tree. State in a comment which interpreter(s) to run it with.
  3. README.md    - which property clause is broken, and exactly what is needed for it to manifest (inputs / sequence / interleaving / version). Start it with a single line `NEEDS: <one sentence>`.
Before finishing, VERIFY yourself: (i) with your change applied the test suite passes; (ii) demo.py fails with the change; (iii) reverse-apply your patch (`git -C {wt} apply -R seed/patch.diff`; do NOT use `git stash`: the stash is shared between all the scratch worktrees and other agents are working next to you) -> demo.py passes on the unmodified tree -> re-apply it (`git -C {wt} apply seed/patch.diff`) so the worktree ends WITH the change applied. Report briefly what you changed and how it manifests.""")
