#!/bin/bash
# usage: tools/mutant.sh <check-id> <file-relative-to-stackscope> <python-expr old> <new>   (scratch copy under /tmp/mut_$$; removed afterwards)
set -e
ID=$1; FILE=$2; OLD=$3; NEW=$4
D=/tmp/mut_$$
mkdir -p $D && cp -r /repo/stackscope $D/ && rm -rf $D/stackscope/__pycache__
python3 - "$D/stackscope/$FILE" "$OLD" "$NEW" <<'PY'
import sys
p, old, new = sys.argv[1:4]
s = open(p).read()
assert s.count(old) >= 1, "pattern not found"
s = s.replace(old, new, 1)
open(p, "w").write(s)
PY
if [ -n "$RUN_TESTS" ]; then (cd $D && /venv/bin/python -m pytest -q -p no:cacheprovider stackscope 2>&1 | tail -1); fi
VERIF_REPO=$D /verif/check $ID --tier quick 2>&1 | cut -c1-400 | grep -E "VIOLATION|tier=|HARNESS" | head -4
rm -rf $D
