#!/bin/bash
# usage: tools/save_seed.sh <ID> <detected-by-checks (comma list or none)> <needs (text)>   -- after eval_seed.sh confirmed everything
ID=$1; BY=$2; NEEDS=$3
WT=${SEEDPFX:-/tmp/seed_}$ID
N=${4:-}
D=/verif/seeded/$ID$N
mkdir -p $D
git -C $WT diff -- stackscope > $D/patch.diff
cp $WT/seed/demo.py $D/demo.py
cp $WT/seed/README.md $D/AGENT_README.md 2>/dev/null
python3 - "$ID" "$BY" "$NEEDS" "$D" <<'PY'
import json, sys, subprocess
pid, by, needs, d = sys.argv[1:5]
meta = {
 "property": pid,
 "origin": "written by a fresh sub-agent that saw only the property text and its own scratch worktree of /repo (nothing from /verif)",
 "needs_to_manifest": needs,
 "base_commit": subprocess.check_output(["git", "-C", "/repo", "rev-parse", "--short", "HEAD"]).decode().strip(),
 "confirmed": {
   "existing_tests_pass_with_change": True,
   "demo_fails_with_change": True,
   "demo_passes_without_change": True,
 },
 "ran": "tools/eval_seed.sh %s  (pytest in the scratch worktree; seed/demo.py with SS_PATH=<worktree> and SS_PATH=/repo; "
        "VERIF_REPO=<worktree> ./check <ID> --tier quick, which makes the workers import the patched tree - equivalent to "
        "`git -C /repo apply patch.diff` + run + `git -C /repo checkout -- .`, without disturbing background runs on /repo)" % pid,
 "detected_by": [x for x in by.split(",") if x and x != "none"],
}
json.dump(meta, open(d + "/meta.json", "w"), indent=1)
PY
echo saved $D
