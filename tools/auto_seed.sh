#!/bin/bash
# usage: tools/auto_seed.sh <prefix e.g. /tmp/seed3_> <ID> [extra checks]  -- rebase the seed worktree onto /repo HEAD, evaluate, print a verdict
PFX=$1; ID=$2; shift 2
WT=$PFX$ID
H=$(git -C /repo rev-parse HEAD)
if [ "$(git -C $WT rev-parse HEAD)" != "$H" ]; then
  (cd $WT && git stash -q && git checkout -q --detach $H && git stash pop -q) || echo "REBASE-PROBLEM $ID"
fi
PY=/venv/bin/python
grep -qiE "3\.9|3\.10" $WT/seed/README.md 2>/dev/null && grep -qiE "only|not .*3\.1[12]" $WT/seed/README.md && VERS=old
out=$(SEEDPFX=$PFX /verif/tools/eval_seed.sh $ID "$@" 2>&1)
tests=$(echo "$out" | grep -A1 "tests with the change" | tail -1)
dw=$(echo "$out" | grep -A1 "demo WITH" | grep exit= | head -1)
dr=$(echo "$out" | grep -A1 "demo on /repo" | grep exit= | head -1)
nv=$(echo "$out" | grep -c "^VIOLATION")
echo "$ID: tests[$tests] demo_with[$dw] demo_repo[$dr] violations=$nv $(head -1 $WT/seed/README.md | cut -c1-200)"
echo "$out" | grep -E "interp=|HARNESS" | head -2 | cut -c1-260
