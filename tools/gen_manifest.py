#!/usr/bin/env python3
"""Regenerate /verif/MANIFEST.json from the table below (kept in one place so it is always valid)."""
import json
import os

VERIF = os.path.dirname(os.path.dirname(os.path.abspath(__file__)))

CHECKS = {
    "C01": dict(
        level="exploration", design="5/C01",
        technique="property-based testing: Hypothesis-generated with-programs + systematic exit-shape table, shadow-stack oracle, 4 interpreters",
        text="Generated-input search: thousands of generated generator/coroutine/async-generator bodies, each observed at every "
             "suspension point on CPython 3.9-3.12, compared with a shadow stack kept by the managers themselves; plus a "
             "systematic table of exit shapes. Held on everything explored; absence of counter-examples beyond the bounds "
             "(nesting <= 5, <= 14 managers, <= 60 steps) is not established.",
        note="Trusted: the harness managers' shadow bookkeeping; CPython's compiler as the source of bytecode shapes; "
             "class-based managers only."),
}

NOT_YET = "check not built yet at this commit (work in progress; see DESIGN.md section 5 for the planned generator and oracle)"


def main():
    props = [json.loads(l)["id"] for l in open(os.path.join(VERIF, "properties.jsonl"))]
    checks = []
    for pid in props:
        c = CHECKS.get(pid)
        if not c:
            continue
        checks.append({
            "property_id": pid,
            "quick_cmd": "./check %s --tier quick" % pid,
            "thorough_cmd": "./check %s --tier thorough" % pid,
            "evidence_file": "/verif/evidence/%s.json" % pid,
            "replay_cmd_template": "./check %s --replay {path}" % pid,
            "engine": "vlib",
            "level_claimed": {"category": c["level"], "text": c["text"], "design_ref": "DESIGN.md " + c["design"]},
            "level_note": c["note"],
            "technique": c["technique"],
        })
    man = {
        "version": 1,
        "setup_cmd": "./setup.sh",
        "hooks": {
            "guard": "STACKSCOPE_VERIF",
            "enable": "environment variable STACKSCOPE_VERIF=1 set for the worker interpreters by vlib/workers.py (read once at "
                      "import of stackscope._glue / stackscope._lowlevel_cpython_311); pure Python, nothing to build",
            "baseline_off_cmd": "cd /repo && env -u STACKSCOPE_VERIF /venv/bin/python -m pytest -ra -q -p no:cacheprovider --timeout=900 --continue-on-collection-errors",
            "source_commits": ["f6dd1b3"],
            "add_only": True,
        },
        "engines": [{
            "name": "vlib", "path": "/verif/vlib",
            "serves_properties": [c["property_id"] for c in checks],
            "kind_free_text": "property-based testing / fuzzing harness: Hypothesis strategies (programs, chains, hook worlds, stack "
                              "trees, schedules, fault plans) generated in a 3.12 driver and executed against the working tree of "
                              "/repo in worker subprocesses on CPython 3.9/3.10/3.11/3.12, judged by explicit oracles",
        }],
        "checks": checks,
        "not_applicable": [{"property_id": p, "reason": NOT_YET} for p in props if p not in CHECKS],
        "notes": "All checks: ./check <ID> --tier quick|thorough; VERIF_SEED selects the run; exit 2 = harness problem "
                 "(inconclusive), never reported as a violation. atheris and CrossHair are installed but not used: there is no "
                 "byte-level parser surface (inputs are compiler output and live object graphs) and nothing that reads "
                 "interpreter memory through ctypes is symbolically executable; see DESIGN.md section 2.",
    }
    with open(os.path.join(VERIF, "MANIFEST.json"), "w") as f:
        json.dump(man, f, indent=1)
        f.write("\n")


if __name__ == "__main__":
    main()
