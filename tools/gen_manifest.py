#!/usr/bin/env python3
"""Regenerate /verif/MANIFEST.json from the table below (kept in one place so it is always valid)."""
import json
import os

VERIF = os.path.dirname(os.path.dirname(os.path.abspath(__file__)))

def E(level, design, technique, text, note):
    return dict(level=level, design=design, technique=technique, text=text, note=note)


HELD = " Held on everything explored; absence of counter-examples beyond the stated bounds is not established."

CHECKS = {
    "C01": E("exploration", "5/C01",
             "property-based testing: Hypothesis-generated with-programs + systematic exit-shape table, shadow-stack oracle, CPython 3.9-3.12",
             "Generated-input search: generated generator/coroutine/async-generator bodies, each observed at every suspension point "
             "on CPython 3.9-3.12 through extract() and lowlevel.contexts_active_in_frame, compared with a shadow stack kept by the "
             "managers themselves; plus a systematic table of exit shapes (bounds: nesting <= 5, <= 14 managers, <= 60 steps)." + HELD,
             "Trusted: the harness managers' shadow bookkeeping; CPython's compiler as the source of bytecode shapes; class-based managers only."),
    "C02": E("exploration", "5/C02",
             "property-based testing: generated with-programs probed while running (from body call sites and from inside every __enter__/__exit__/__aenter__/__aexit__), shadow-stack oracle",
             "Same program space as C01 for functions, generators, coroutines and async generators; the running frame is inspected "
             "with extract_since() from nested code at every probe position and compared with the shadow stack at that instant." + HELD,
             "Trusted: shadow bookkeeping of the harness managers; probes are nested Python calls on the same thread."),
    "C03": E("exploration", "5/C03",
             "property-based testing: generated await/yield-from chains; differential oracle = traceback of an exception thrown into the chain",
             "Generated chains (depth 0-6, 10 link kinds, 4 outer kinds, 3 terminators, every suspension point) on CPython 3.9-3.12; "
             "extract(x).frames must equal, as frame objects and line numbers, the path of a BaseException thrown into x right "
             "after; leaf/root/exhausted/with_contexts clauses checked." + HELD,
             "Trusted: CPython's traceback of the thrown exception and the templates' own unwinding log as ground truth."),
    "C06": E("exploration", "5/C06",
             "metamorphic property testing: observed run vs never-observed twin of generated programs/chains, at Hypothesis-drawn subsets of extraction points; plus refcount / referrer / weakref retention oracles",
             "For generated with-programs (all kinds) and await chains, extraction at a drawn subset of suspension and probe points "
             "(1-3 repetitions, both analysis modes) must leave the event trace identical to the unobserved twin; consecutive "
             "extractions compare equal; reference counts of managers / target / frame / value-stack methods are unchanged after "
             "extract-and-drop rounds (after a same-state warm-up); nothing from stackscope refers to the managers; the target is "
             "collectable; the worker survives. 3.9-3.12; includes the saved F9 crash history." + HELD,
             "Trusted: sys.getrefcount/gc.get_referrers/weakref as retention oracles; silent memory corruption is not visible."),
    "C07": E("exploration", "5/C07",
             "property-based testing of blocked threads (shadow call log) + enumerated interleavings at guarded yield points with a scripted target thread + randomised stress under a 1us switch interval",
             "Blocked leg: generated thread bodies on 3.9-3.12 compared with the shadow call log and the f_back chain. Racing leg "
             "(3.11/3.12): every yield point inside inspect_frame / unwrap_thread / the other-thread search x every amount of target "
             "progress (incl. leaving the frame, thread exit, ident reuse by a new thread) for three scripted targets and four entry "
             "points; the call must not crash/raise, must not report foreign frames, and the non-exiting contexts must be consistent "
             "with one instruction position or the snapshot rejected. Stress run as smoke test." + HELD,
             "Trusted: yield points = real preemption points; the racing clause is not explored on 3.9/3.10 (no protocol to explore; stated limit)."),
    "C08": E("exploration", "5/C08",
             "property-based testing: generated with-programs with 16 target forms x 3 layouts; oracle = renderer's record + ast comparison",
             "Dynamic leg: every context reported for generated programs (suspended and running, 3.9-3.12) is matched to its with item "
             "through obj; start_line must be the with-keyword line and varname must be None/ast-equal/local-bound per the property." + HELD,
             "Trusted: the renderer's line/target record; ast.parse for expression equality; [x] == (x,) identified."),
    "C09": E("exploration", "5/C09",
             "property-based testing: generated trees of plain / generator-based managers and exit stacks with generated registration sequences; oracle = the builder's own record",
             "Generated manager trees are entered by a frame that is then observed suspended in the body and while a chosen "
             "manager is exiting; inner stacks, exit-stack children (count, order, sync/async kind, obj identity, description) and "
             "their recursive unfolding are compared with what the builder recorded; 3.9-3.12." + HELD,
             "Trusted: the builder's record; push(cm)/enter_context(cm) are indistinguishable by construction of contextlib."),
    "C10": E("exploration", "5/C10",
             "model-based property testing: generated hook worlds vs an independent scope-based reference interpretation",
             "Generated item trees and per-frame elaborate results (core space and order space) plus the fixpoint-guard family, executed "
             "on 3.9-3.12; frames and leaf must equal a reference model written from the documentation (scopes, no depth counters)." + HELD,
             "Trusted: the reference model's reading of the documented rules; cases the documentation leaves undefined are skipped and counted."),
    "C04": E("exploration", "5/C04",
             "property-based testing: generated call plans (plain / generator / coroutine / greenlet splits); exhaustive (outer, inner, limit) cross product per plan against a shadow frame list",
             "For each generated plan the whole cross product of outer x inner x limit plus extract_since / extract_until (integer "
             "and frame limits) is compared with slices of the shadow list recorded by the plan's own frames; greenlet plans on "
             "3.12, others on 3.9-3.12." + HELD,
             "Trusted: the shadow list; exhaustive per plan, sampled over plans."),
    "C05": E("fault_enumeration", "5/C05",
             "fault injection: exhaustive single faults (site x k-th dynamic invocation) and enumerated/sampled pairs over Hypothesis-generated extraction scenarios",
             "For each generated scenario (coroutine chains with nested generator-based managers and exit stacks, custom stack "
             "items, a blocked thread, a suspended greenlet) every single fault at each of 7 hook sites is injected and pairs are "
             "enumerated up to a budget; extract must return a Stack, every injected exception must be found by identity in the "
             "error of exactly the Stack being built, outward frames must equal the fault-free run, the result must format. Plus "
             "non-stack objects as input." + HELD,
             "Trusted: interposition on three module-level names of stackscope._extract to know which Stack is being built; CPython 3.11/3.12 only."),
    "C11": E("exploration", "5/C11",
             "model-based property testing: generated wrapper chains with table-driven, logging hooks vs a reference loop; three invocation paths compared",
             "Generated chains of synthetic and generator-based managers are filled through fill_context outside an extraction, "
             "inside one, and through a real frame; the hook-invocation log and the final obj/hide/description/inner_stack/children "
             "must equal a reference loop written from the documented rule; cycles must end in the 100-step error." + HELD,
             "Trusted: the reference loop; contextlib glue's description text is not asserted."),
    "C12": E("exploration", "5/C12",
             "property-based testing (towers, nested names, registration sequences, IdentityDict op sequences vs identity-keyed model) + exhaustive enumeration of the 72 customize combinations",
             "get_code through generated wrapper towers and nested-name paths is compared with the code object observed executing; "
             "registration sequences over equal-but-distinct code objects are compared with an identity-keyed model; the full "
             "customize option product is enumerated and observed on real frames; IdentityDict is driven against a reference." + HELD,
             "Trusted: sys._getframe().f_code inside the base function as 'the code that runs'."),
    "C13": E("exploration", "5/C13",
             "property-based testing: generated nested call trees of extract/extract_outermost/extract_child/fill_context with per-level options, single-threaded and under generated cooperative schedules of 2-4 threads",
             "Options in force are observed through public behaviour at every hook entry and after every child returns or raises, "
             "and compared with the model 'innermost enclosing extract on this thread'; threaded leg drives 2-4 such trees under "
             "generated interleavings at hook granularity." + HELD,
             "Trusted: the observation method (stub-or-not, contexts-or-not); interleavings only at hook-entry granularity."),
    "C14": E("exploration", "5/C14",
             "property-based testing: generated Trio task-tree specs rendered to source + thread ping-pong chains; differential oracle = Trio's own task/nursery bookkeeping",
             "Generated task trees (nurseries opened directly / in helpers / in async generator managers; blocking in body or in "
             "__aexit__ after bodies ending in jump-shaped statements) are extracted from the root task with recursion and compared "
             "with task.child_nurseries / nursery.child_tasks by identity; blocking lines checked; to_thread/from_thread chains of "
             "depth 0-4 must show exactly the generated call chain. CPython 3.12 only." + HELD,
             "Trusted: Trio's task tree attributes; wait_all_tasks_blocked for quiescence."),
    "C15": E("exploration", "5/C15",
             "property-based testing: generated greenlet parent chains inspected from every vantage point + lifecycle states + greenback alternation depths; shadow call-log oracle",
             "Every greenlet of generated parent chains is extracted from main, itself, its child, a deeper descendant and an "
             "unrelated greenlet and compared with the shadow call log; unstarted/dead/foreign-thread states; greenback bridges "
             "depth 0-5 from outside and inside the task. CPython 3.12 only." + HELD,
             "Trusted: the shadow call logs."),
    "C16": E("exploration", "5/C16",
             "property-based testing: generated chains (suspended and extracted from inside while running) and item trees; oracle = builder's ownership record",
             "For every frame of generated chains (suspended and running) and of custom item trees: origin weak-referenceable and "
             "extract_outermost(origin).pyframe is the frame; owner == origin for frames owned by suspended generators; "
             "extract_outermost(x) == extract(x).frames[0] or raises with the recorded error. Includes the saved F9 crash history." + HELD,
             "Trusted: the builder's record of which object owns which frame."),
    "C17": E("exploration", "5/C17",
             "model-based property testing over generated sys.modules histories + generated thread schedules at guarded yield points",
             "Generated add/remove/re-add/extract histories judged after every extraction by a model of which glue must have run; "
             "generated 2-4 thread schedules over the guarded yield points of add_glue_as_needed with a lock-aware cooperative "
             "controller. Open finding F4 (len(sys.modules) fast path) is recognised by signature, counted and excluded." + HELD,
             "Trusted: the model; yield points coincide with real preemption points; built-in glue registered via stackscope._glue.builtin_glue."),
    "C18": E("exploration", "5/C18",
             "property-based testing: generated Stack/Frame/Context trees x 8 option combinations; round-trip oracle (recursive-descent reader of the box-drawing text) + ASCII marker mapping",
             "Every generated tree is formatted in all 8 option combinations on 3.9-3.12; lines must be single newline-terminated "
             "lines, str == join, the text must read back (structure and unique element tokens) to the abstraction of the tree under "
             "those options, and the ascii_only text must be the marker-for-marker image of the Unicode text." + HELD,
             "Trusted: the reader's grammar (grounded in the README examples) and the abstraction function."),
    "C19": E("exploration", "5/C19",
             "property-based testing: generated Stack trees x 8 option combinations; reference projection oracle + pickle round trip + reachability + format_flat decomposition",
             "The stdlib summary of every generated tree must match, entry for entry, a reference projection written from the "
             "documentation; summaries must pickle, reach no frame, and format_flat must decompose into header + "
             "StackSummary.format() + leaf + error lines; 3.9-3.12." + HELD,
             "Trusted: the reference projection; only filename/line/function-name prefix are asserted for context entries."),
    "C20": E("exploration", "5/C20",
             "property-based testing: generated with-programs observed in referents mode; shadow-stack over-approximation oracle",
             "Generated programs observed at every suspension point with trickery disabled on 3.9-3.12; result must be an ordered "
             "superset of the shadow stack whose only extras are the manager being entered/exited, with an is_exiting entry iff an "
             "exit is in progress, and no warning." + HELD,
             "Trusted: shadow bookkeeping; managers' exit methods are ordinary methods named __exit__/__aexit__ (documented precondition)."),
}

NOT_YET = "check not built yet at this commit (work in progress; see DESIGN.md section 5 for the planned generator and oracle)"


def main():
    props = [json.loads(l)["id"] for l in open(os.path.join(VERIF, "properties.jsonl"))]
    checks = []
    for pid in props:
        c = CHECKS.get(pid)
        if not c:
            continue
        checks.append({
            "property_id": pid,
            "quick_cmd": "./check %s --tier quick" % pid,
            "thorough_cmd": "./check %s --tier thorough" % pid,
            "evidence_file": "/verif/evidence/%s.json" % pid,
            "replay_cmd_template": "./check %s --replay {path}" % pid,
            "engine": "vlib",
            "level_claimed": {"category": c["level"], "text": c["text"], "design_ref": "DESIGN.md " + c["design"]},
            "level_note": c["note"],
            "technique": c["technique"],
        })
    man = {
        "version": 1,
        "setup_cmd": "./setup.sh",
        "hooks": {
            "guard": "STACKSCOPE_VERIF",
            "enable": "environment variable STACKSCOPE_VERIF=1 set for the worker interpreters by vlib/workers.py (read once at "
                      "import of stackscope._glue / stackscope._lowlevel_cpython_311); pure Python, nothing to build",
            "baseline_off_cmd": "cd /repo && env -u STACKSCOPE_VERIF /venv/bin/python -m pytest -ra -q -p no:cacheprovider --timeout=900 --continue-on-collection-errors",
            "source_commits": ["f6dd1b3", "3ffb9f2", "c544811", "13e04b1"],
            "add_only": True,
        },
        "engines": [{
            "name": "vlib", "path": "/verif/vlib",
            "serves_properties": [c["property_id"] for c in checks],
            "kind_free_text": "property-based testing / fuzzing harness: Hypothesis strategies (programs, chains, hook worlds, stack "
                              "trees, schedules, fault plans) generated in a 3.12 driver and executed against the working tree of "
                              "/repo in worker subprocesses on CPython 3.9/3.10/3.11/3.12, judged by explicit oracles",
        }],
        "checks": checks,
        "not_applicable": [{"property_id": p, "reason": NOT_YET} for p in props if p not in CHECKS],
        "notes": "All checks: ./check <ID> --tier quick|thorough; VERIF_SEED selects the run; exit 2 = harness problem "
                 "(inconclusive), never reported as a violation. atheris and CrossHair are installed but not used: there is no "
                 "byte-level parser surface (inputs are compiler output and live object graphs) and nothing that reads "
                 "interpreter memory through ctypes is symbolically executable; see DESIGN.md section 2.",
    }
    with open(os.path.join(VERIF, "MANIFEST.json"), "w") as f:
        json.dump(man, f, indent=1)
        f.write("\n")


if __name__ == "__main__":
    main()
