#!/bin/bash
# Run every registered check (tier from $1, default quick) against /repo; prints one summary line per check.
cd "$(dirname "$0")/.."
TIER=${1:-quick}
IDS=$(python3 -c "import json; print(' '.join(c['property_id'] for c in json.load(open('MANIFEST.json'))['checks']))")
rc=0
for id in ${2:-$IDS}; do
  out=$(./check $id --tier $TIER 2>&1); code=$?
  echo "$out" | grep -E "VIOLATION|HARNESS|KNOWN-FINDING|tier=" | cut -c1-260
  [ $code -ne 0 ] && { echo "  -> exit $code"; rc=1; }
done
exit $rc
