"""Adopt re-made seed patches from /tmp/port_<sid>/seed_new.patch (see tools/mkport.py)."""
import json, os, shutil, subprocess, sys
head = subprocess.check_output(["git", "-C", "/repo", "log", "--format=%h", "-1"]).decode().strip()
for sid in sys.argv[1:]:
    src = "/tmp/port_%s/seed_new.patch" % sid
    d = "/verif/seeded/%s" % sid
    if not os.path.exists(src) or os.path.getsize(src) == 0:
        print(sid, "NO PATCH"); continue
    if not os.path.exists(d + "/patch.orig.diff"):
        shutil.copy(d + "/patch.diff", d + "/patch.orig.diff")
    shutil.copy(src, d + "/patch.diff")
    m = json.load(open(d + "/meta.json"))
    m["ported"] = {"to_commit": head, "note": "the code this change edits was repaired / restructured after the seed was written; the same behavioural change re-made by hand against the current source by a sub-agent that saw only the old patch, its demo and README (patch.orig.diff is the original); tests pass with it, demo fails with it and passes without it"}
    json.dump(m, open(d + "/meta.json", "w"), indent=1)
    print(sid, "ADOPTED")
