#!/bin/bash
# Sensitivity regression: re-apply every saved seeded change (seeded/<id>/patch.diff) to a scratch copy of /repo's
# CURRENT tree and confirm that the checks recorded in its meta.json (detected_by) still report a violation.
# usage: tools/seed_regress.sh [-j N] [seed ids...]      (default: all seeds, 3 at a time)
# Scratch copies live under /tmp/seedreg.* and are removed as soon as each seed has been evaluated.
# Output: one line per seed  "<seed> <check> CAUGHT|MISSED|NOAPPLY" (or "<seed> - STALE|WITHDRAWN", see meta.json) and a summary; exit 1 if anything is MISSED.
cd "$(dirname "$0")/.."
J=3
if [ "$1" = "-j" ]; then J=$2; shift 2; fi
SEEDS=("$@")
ALLSEEDS=0
if [ ${#SEEDS[@]} -eq 0 ]; then SEEDS=($(ls -d seeded/*/ | xargs -n1 basename | sort)); ALLSEEDS=1; fi
OUT=$(mktemp -d /tmp/seedreg.XXXXXX)
one() {
  sid=$1
  d=$OUT/$sid
  mkdir -p $d
  if python3 -c "import json,sys;sys.exit(0 if json.load(open('/verif/seeded/$sid/meta.json')).get('withdrawn') else 1)"; then
    echo "$sid - WITHDRAWN"
    rm -rf $d
    return
  fi
  if python3 -c "import json,sys;sys.exit(0 if json.load(open('/verif/seeded/$sid/meta.json')).get('stale') else 1)"; then
    # (a later repair of the library neutralises this change; see meta.json)
    echo "$sid - STALE"
    rm -rf $d
    return
  fi
  git -C /repo archive HEAD | tar -x -C $d
  if ! (cd $d && patch -p1 -s --no-backup-if-mismatch < /verif/seeded/$sid/patch.diff >/dev/null 2>&1); then
    echo "$sid - NOAPPLY"
    rm -rf $d
    return
  fi
  for chk in $(python3 -c "import json;print(' '.join(json.load(open('/verif/seeded/$sid/meta.json'))['detected_by']))"); do
    if VERIF_REPO=$d ./check $chk --tier quick 2>&1 | grep -q "^VIOLATION property=$chk"; then
      echo "$sid $chk CAUGHT"
    else
      echo "$sid $chk MISSED"
    fi
  done
  rm -rf $d
}
export -f one
export OUT
printf "%s\n" "${SEEDS[@]}" | xargs -P $J -I{} bash -c 'one {}' | tee $OUT/result.txt
n=$(grep -c . $OUT/result.txt); c=$(grep -c CAUGHT $OUT/result.txt); m=$(grep -c MISSED $OUT/result.txt); a=$(grep -c NOAPPLY $OUT/result.txt)
echo "seed_regress: $n lines, $c caught, $m missed, $a did not apply"
if [ $ALLSEEDS = 1 ]; then sort $OUT/result.txt > /verif/seeded/REGRESS_RESULT.txt; fi
rm -rf $OUT
[ "$m" = "0" ]
