#!/bin/bash
# usage: tools/eval_seed.sh C04 [extra check ids...]   -- evaluates the seeded change in /tmp/seed_<ID>
ID=$1; shift
WT=${SEEDPFX:-/tmp/seed_}$ID
cd $WT || exit 2
echo "== diff stat"; git diff --stat -- stackscope | tail -3
git diff -- stackscope > /tmp/seed_$ID.diff
echo "== tests with the change"; /venv/bin/python -m pytest -q -p no:cacheprovider stackscope 2>&1 | tail -1
PYBIN=${PYBIN:-/venv/bin/python}
echo "== demo WITH change (expect non-zero)"; (cd $WT/seed && SS_PATH=$WT timeout 300 $PYBIN demo.py >/tmp/demo_with.txt 2>&1; echo "exit=$?"; tail -3 /tmp/demo_with.txt | cut -c1-300)
echo "== demo on /repo (expect 0)"; (cd $WT/seed && SS_PATH=/repo timeout 300 $PYBIN demo.py >/tmp/demo_without.txt 2>&1; echo "exit=$?"; tail -2 /tmp/demo_without.txt | cut -c1-200)
for c in $ID "$@"; do
  echo "== /verif check $c against the seeded tree"
  VERIF_REPO=$WT /verif/check $c --tier quick 2>&1 | grep -E "VIOLATION|interp=|tier=|HARNESS" | cut -c1-420 | head -5
done
