"""Prompt for a sub-agent that re-makes a saved seeded change whose patch no longer applies (the library was repaired /
restructured around it).  The agent sees only the old patch, its demo and README inside its own scratch worktree."""
import sys
sid = sys.argv[1]
wt = "/tmp/port_%s" % sid
print(f"""You are maintaining a set of deliberately seeded behavioural changes ("mutants") of the Python library `stackscope`. One of them no longer applies, because the library's source has since been repaired / restructured in the places the patch touches. Your job: re-make THE SAME behavioural change by hand against the current source.

Your own scratch git worktree of the library (current source, detached checkout) is {wt} (package under {wt}/stackscope, tests under {wt}/stackscope/_tests). Work ONLY inside {wt}; do not read or touch /verif, /repo or any other /tmp directory except /tmp/seed_deps; never use `git stash`, pkill or killall.

In {wt}/seed_old/ you find: `patch.diff` (the old patch, against an older source: read it to understand WHAT behaviour was changed, do not expect it to apply), `demo.py` (a script that exits 0 on the unmodified library and non-zero, printing what went wrong, on the library WITH the change; it finds the library through the environment variable SS_PATH), and possibly `AGENT_README.md` (the original author's description).

Steps:
1. Understand the behavioural change (what the mutated library does differently, under which conditions).
2. Edit the current source in {wt}/stackscope so that it has the same defect. Keep it minimal and plausible-looking (a change a maintainer could have made by mistake or as a mis-guided simplification). If a later repair made the old change impossible to express (the code it broke no longer exists and no equivalent edit reintroduces the same wrong behaviour), say so: answer STALE with the reason.
3. Verify all three: (a) the library's own tests still pass WITH your change: `cd {wt} && /venv/bin/python -m pytest -q -p no:cacheprovider stackscope` ; (b) the demo FAILS with your change: `SS_PATH={wt} <python> seed_old/demo.py` exits non-zero; (c) the demo PASSES without it: save your change with `git -C {wt} diff -- stackscope > {wt}/seed_new.patch`, revert with `git -C {wt} checkout -- stackscope`, run the demo again (must exit 0), then re-apply with `git -C {wt} apply seed_new.patch`. The demo's header says which interpreter(s) it needs: /venv/bin/python is CPython 3.12 (trio, greenlet, greenback installed); others: /root/.pyenv/versions/3.9.18/bin/python, 3.10.13, 3.11.7 with PYTHONPATH={wt}:/tmp/seed_deps/te (and :/tmp/seed_deps/shims for 3.9/3.10). If the demo hard-codes a path to find the library, you may adjust that line of the demo (only that).
4. Leave the final patch in {wt}/seed_new.patch (output of `git diff -- stackscope` in the worktree, change applied in the working tree).

In your final message state: PORTED or STALE; which interpreters you verified (b) and (c) on, with the demo's real output lines; and a one-sentence description of the edit.""")
