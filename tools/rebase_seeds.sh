#!/bin/bash
# Re-make saved seed patches that no longer apply to /repo's HEAD (the library has been repaired around them):
# 3-way apply in a scratch worktree; on success the patch is regenerated (the original is kept as patch.orig.diff).
# usage: tools/rebase_seeds.sh <seed id>...        prints  <id> REBASED | CONFLICT | APPLIES
cd "$(dirname "$0")/.."
for sid in "$@"; do
  wt=$(mktemp -d /tmp/seedrb.XXXXXX)
  git -C /repo worktree add -q --detach $wt HEAD
  if (cd $wt && git apply --check /verif/seeded/$sid/patch.diff 2>/dev/null); then
    echo "$sid APPLIES"
  elif (cd $wt && git apply --3way /verif/seeded/$sid/patch.diff >/dev/null 2>&1) && ! (cd $wt && git diff --name-only --diff-filter=U | grep -q .); then
    [ -f seeded/$sid/patch.orig.diff ] || cp seeded/$sid/patch.diff seeded/$sid/patch.orig.diff
    (cd $wt && git diff HEAD -- stackscope) > seeded/$sid/patch.diff
    echo "$sid REBASED"
  else
    echo "$sid CONFLICT"
  fi
  git -C /repo worktree remove --force $wt
done
git -C /repo worktree prune
