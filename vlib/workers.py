"""Persistent worker subprocesses, one per interpreter under test.

A worker runs vlib/worker_main.py (pure stdlib, 3.9-compatible) with PYTHONPATH pointing at the
working tree of the repository under test (VERIF_REPO, default /repo), so what is executed is always
the current source, never an installed copy.  Protocol: one JSON object per line each way.
"""
import json
import os
import select
import subprocess
import sys

VERIF = os.path.dirname(os.path.dirname(os.path.abspath(__file__)))
REPO = os.environ.get("VERIF_REPO", "/repo")

INTERPRETERS = {
    "3.9": "/root/.pyenv/versions/3.9.18/bin/python",
    "3.10": "/root/.pyenv/versions/3.10.13/bin/python",
    "3.11": "/root/.pyenv/versions/3.11.7/bin/python",
    "3.12": "/venv/bin/python",  # has trio / greenlet / greenback
}
ALL = ["3.9", "3.10", "3.11", "3.12"]


class HarnessError(Exception):
    """Something is wrong with the machinery (not with the code under test): exit 2, inconclusive."""


class WorkerDied(Exception):
    def __init__(self, interp, returncode, last_request, stderr_tail):
        super().__init__("worker %s died with %r" % (interp, returncode))
        self.interp, self.returncode, self.last_request, self.stderr_tail = (
            interp, returncode, last_request, stderr_tail)


def worker_env(interp, hooks=True, extra=None):
    env = dict(os.environ)
    path = [REPO, os.path.join(VERIF, ".deps", "te")]
    if interp in ("3.9", "3.10"):
        path.append(os.path.join(VERIF, "shims"))
    path.append(VERIF)
    env["PYTHONPATH"] = os.pathsep.join(path)
    env["PYTHONHASHSEED"] = "0"
    env["PYTHONDONTWRITEBYTECODE"] = "1"
    if hooks:
        env["STACKSCOPE_VERIF"] = "1"
    else:
        env.pop("STACKSCOPE_VERIF", None)
    if extra:
        env.update(extra)
    return env


class Worker:
    def __init__(self, interp, hooks=True, timeout=180.0, extra_env=None):
        self.interp = interp
        self.timeout = timeout
        self.hooks = hooks
        self.extra_env = extra_env
        self.proc = None
        self.stderr_path = None
        self.start()

    def start(self):
        exe = INTERPRETERS[self.interp]
        if not os.path.exists(exe):
            raise HarnessError("interpreter %s missing at %s" % (self.interp, exe))
        errdir = os.environ.get("VERIF_WORKER_STDERR_DIR")
        if errdir:
            stderr = open(os.path.join(errdir, "worker-%s-%d.err" % (self.interp, os.getpid())), "ab")
        else:
            stderr = subprocess.DEVNULL
        self.proc = subprocess.Popen(
            [exe, "-u", "-X", "faulthandler", os.path.join(VERIF, "vlib", "worker_main.py")],
            stdin=subprocess.PIPE, stdout=subprocess.PIPE, stderr=stderr,
            env=worker_env(self.interp, self.hooks, self.extra_env), cwd=VERIF, bufsize=0,
        )
        self._buf = b""
        hello = self._readline(60.0)
        if hello is None or hello.get("hello") != 1:
            raise HarnessError("worker %s failed to start: %r" % (self.interp, hello))
        self.info = hello

    def _readline(self, timeout):
        fd = self.proc.stdout.fileno()
        while b"\n" not in self._buf:
            r, _, _ = select.select([fd], [], [], timeout)
            if not r:
                return "timeout"
            chunk = os.read(fd, 1 << 16)
            if not chunk:
                return None
            self._buf += chunk
        line, self._buf = self._buf.split(b"\n", 1)
        try:
            return json.loads(line.decode("utf-8", "replace"))
        except ValueError:
            raise HarnessError("worker %s sent garbage: %r" % (self.interp, line[:200]))

    def request(self, req, timeout=None):
        data = (json.dumps(req) + "\n").encode()
        try:
            self.proc.stdin.write(data)
            self.proc.stdin.flush()
        except (BrokenPipeError, OSError):
            rc = self.proc.wait()
            self.restart()
            raise WorkerDied(self.interp, rc, req, "")
        resp = self._readline(timeout or self.timeout)
        if resp == "timeout":
            self.proc.kill()
            self.proc.wait()
            self.restart()
            raise HarnessError("worker %s: watchdog expired on request op=%r" % (self.interp, req.get("op")))
        if resp is None:
            rc = self.proc.wait()
            self.restart()
            raise WorkerDied(self.interp, rc, req, "")
        if "corrupted" in resp:
            self.restart()
            raise WorkerDied(self.interp, "interpreter-internal error " + resp["corrupted"], req, resp.get("traceback", ""))
        if "harness_error" in resp:
            raise HarnessError("worker %s: %s" % (self.interp, resp["harness_error"]))
        return resp

    def restart(self):
        try:
            self.close()
        except Exception:
            pass
        self.start()

    def close(self):
        if self.proc is not None:
            try:
                self.proc.stdin.close()
            except Exception:
                pass
            try:
                self.proc.wait(timeout=5)
            except Exception:
                self.proc.kill()
                self.proc.wait()
            try:
                self.proc.stdout.close()
            except Exception:
                pass
            self.proc = None


class WorkerSet:
    """One worker per requested interpreter."""

    def __init__(self, interps, hooks=True, timeout=180.0, extra_env=None):
        self.workers = {i: Worker(i, hooks, timeout, extra_env) for i in interps}

    def __getitem__(self, interp):
        return self.workers[interp]

    def __iter__(self):
        return iter(self.workers)

    def close(self):
        for w in self.workers.values():
            w.close()

    def __enter__(self):
        return self

    def __exit__(self, *exc):
        self.close()
