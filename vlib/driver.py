"""Check driver: tier/seed handling, shard pool, evidence writer, known findings, exit codes.

Exit codes: 0 = property held on everything explored; 1 = violation (a line
`VIOLATION property=<id> replay=<path>` is printed for each); 2 = harness problem / inconclusive.
"""
import argparse
import concurrent.futures
import hashlib
import importlib
import json
import multiprocessing
import os
import sys
import time
import traceback
from collections import Counter

VERIF = os.path.dirname(os.path.dirname(os.path.abspath(__file__)))
sys.path.insert(0, VERIF)
_hyp = os.path.join(VERIF, ".deps", "hyp")
if os.path.isdir(_hyp):
    sys.path.append(_hyp)

from vlib.workers import HarnessError, WorkerDied, REPO  # noqa: E402

NPROCS = int(os.environ.get("VERIF_PROCS", "16"))


def case_hash(case):
    return hashlib.sha1(json.dumps(case, sort_keys=True, default=repr).encode()).hexdigest()[:14]


def mix_seed(seed, *parts):
    h = hashlib.sha256(repr((seed,) + parts).encode()).digest()
    return int.from_bytes(h[:6], "big")


class Outcome:
    """What one run of a check covered and found.  Shards return `.to_dict()` and the parent merges."""

    MAX_SAMPLES = 6
    MAX_VIOLATIONS = 5

    def __init__(self):
        self.evaluations = 0
        self.nontrivial = set()
        self.samples = []
        self.hist = Counter()
        self.violations = []
        self.known = Counter()
        self.known_examples = {}
        self.per_interp = Counter()
        self.extra = {}
        self.exhaustive = None

    def note_case(self, case, nontrivial, classes=(), n_eval=1, sample=None):
        self.evaluations += n_eval
        h = case_hash(case)
        if nontrivial:
            if h not in self.nontrivial and len(self.samples) < self.MAX_SAMPLES:
                self.samples.append(sample if sample is not None else case)
            self.nontrivial.add(h)
        for c in classes:
            self.hist[c] += 1
        self.hist["cases"] += 1
        return h

    def violation(self, desc, case, interp=None, **more):
        if len(self.violations) < self.MAX_VIOLATIONS:
            v = {"desc": desc, "case": case, "interp": interp}
            v.update(more)
            self.violations.append(v)

    def known_hit(self, fid, example=None):
        self.known[fid] += 1
        if example is not None and fid not in self.known_examples:
            self.known_examples[fid] = example

    def to_dict(self):
        return {
            "evaluations": self.evaluations, "nontrivial": sorted(self.nontrivial),
            "samples": self.samples, "hist": dict(self.hist), "violations": self.violations,
            "known": dict(self.known), "known_examples": self.known_examples,
            "per_interp": dict(self.per_interp), "extra": self.extra, "exhaustive": self.exhaustive,
        }

    def merge(self, d):
        if isinstance(d, Outcome):
            d = d.to_dict()
        self.evaluations += d["evaluations"]
        self.nontrivial.update(d["nontrivial"])
        for s in d["samples"]:
            if len(self.samples) < self.MAX_SAMPLES:
                self.samples.append(s)
        self.hist.update(d["hist"])
        for v in d["violations"]:
            if len(self.violations) < self.MAX_VIOLATIONS:
                self.violations.append(v)
        self.known.update(d["known"])
        for k, v in d.get("known_examples", {}).items():
            self.known_examples.setdefault(k, v)
        self.per_interp.update(d.get("per_interp", {}))
        for k, v in d.get("extra", {}).items():
            if isinstance(v, (int, float)) and isinstance(self.extra.get(k, 0), (int, float)):
                self.extra[k] = self.extra.get(k, 0) + v
            else:
                self.extra.setdefault(k, v)
        if d.get("exhaustive") is not None:
            self.exhaustive = d["exhaustive"] if self.exhaustive is None else (self.exhaustive and d["exhaustive"])


class Ctx:
    def __init__(self, prop, tier, seed):
        self.prop, self.tier, self.seed = prop, tier, seed
        self.quick = tier == "quick"
        self.nprocs = NPROCS
        self.t0 = time.time()

    def pick(self, quick, thorough):
        return quick if self.quick else thorough

    def shard_seed(self, *parts):
        return mix_seed(self.seed, self.prop, *parts)


def _shard_entry(payload):
    modname, fname, arg = payload
    sys.setrecursionlimit(10000)
    mod = importlib.import_module(modname)
    try:
        res = getattr(mod, fname)(arg)
        if isinstance(res, Outcome):
            res = res.to_dict()
        return ("ok", res)
    except HarnessError as ex:
        return ("harness", str(ex))
    except WorkerDied as ex:
        return ("harness", "unhandled worker death: %s (request op=%r)" % (ex, (ex.last_request or {}).get("op")))
    except BaseException:
        return ("harness", traceback.format_exc()[-4000:])


def run_shards(modname, fname, args, procs=None):
    """Run `modname.fname(arg)` for every arg in a pool of forked processes; returns merged Outcome."""
    procs = min(procs or NPROCS, max(1, len(args)))
    out = Outcome()
    ctx = multiprocessing.get_context("fork")
    with concurrent.futures.ProcessPoolExecutor(max_workers=procs, mp_context=ctx) as ex:
        futs = [ex.submit(_shard_entry, (modname, fname, a)) for a in args]
        for f in futs:
            try:
                kind, res = f.result()
            except concurrent.futures.process.BrokenProcessPool:
                raise HarnessError("a shard process of %s.%s died" % (modname, fname))
            if kind != "ok":
                raise HarnessError("shard %s.%s failed: %s" % (modname, fname, res))
            out.merge(res)
    return out


# ------------------------------------------------------------------------------------------------
# known findings

def load_known_findings(prop):
    path = os.path.join(VERIF, "known_findings.txt")
    opened, fixed = [], []
    if not os.path.exists(path):
        return opened, fixed
    for line in open(path):
        line = line.strip()
        if not line or line.startswith("#"):
            continue
        kind, _, rest = line.partition(":")
        fields = rest.strip().split()
        kv = dict(f.split("=", 1) for f in fields if "=" in f and f.split("=", 1)[0] in ("property", "id"))
        if kv.get("property") != prop:
            continue
        if kind == "open":
            text = " ".join(f for f in fields if not f.startswith("property="))
            opened.append({"id": kv.get("id"), "text": text})
        elif kind == "fixed":
            fixed.append({"text": rest.strip()})
    return opened, fixed


# ------------------------------------------------------------------------------------------------

def write_evidence(ctx, mod, out, wall):
    cov = {
        "evaluations": int(out.evaluations),
        "distinct_nontrivial": len(out.nontrivial),
        "rule": mod.RULE,
        "samples": out.samples[: Outcome.MAX_SAMPLES],
        "class_histogram": dict(out.hist),
        "per_interpreter": dict(out.per_interp),
        "known_finding_hits_excluded": dict(out.known),
    }
    if out.exhaustive is not None:
        cov["exhaustive"] = bool(out.exhaustive)
    cov.update(out.extra)
    ev = {
        "property_id": ctx.prop, "tier": ctx.tier, "seed": ctx.seed, "level": mod.LEVEL,
        "coverage": cov, "assumptions": list(getattr(mod, "ASSUMPTIONS", [])),
        "wall_s": round(wall, 2), "violations": len(out.violations),
        "repo": REPO,
    }
    evdir = os.path.join(VERIF, "evidence")
    if os.path.realpath(REPO) != "/repo":
        # sensitivity runs against a scratch copy must never overwrite the evidence of /repo itself
        evdir = os.path.join(VERIF, "replays", "scratch-evidence")
    os.makedirs(evdir, exist_ok=True)
    path = os.path.join(evdir, ctx.prop + ".json")
    tmp = path + ".tmp"
    with open(tmp, "w") as f:
        json.dump(ev, f, indent=1, default=repr, sort_keys=True)
        f.write("\n")
    os.replace(tmp, path)
    return path


def write_replay(ctx, v):
    os.makedirs(os.path.join(VERIF, "replays"), exist_ok=True)
    data = {"property": ctx.prop, "tier": ctx.tier, "seed": ctx.seed}
    data.update(v)
    h = case_hash(v.get("case"))
    path = os.path.join(VERIF, "replays", "%s-%s.json" % (ctx.prop, h))
    with open(path, "w") as f:
        json.dump(data, f, indent=1, default=repr)
        f.write("\n")
    return path


def main(argv=None):
    ap = argparse.ArgumentParser()
    ap.add_argument("prop")
    ap.add_argument("--tier", default=os.environ.get("VERIF_TIER") or "quick", choices=["quick", "thorough"])
    ap.add_argument("--replay")
    a = ap.parse_args(argv)
    prop = a.prop.upper()
    try:
        seed = int(os.environ.get("VERIF_SEED", "1"))
    except ValueError:
        seed = 1
    ctx = Ctx(prop, a.tier, seed)
    t0 = time.time()
    try:
        mod = importlib.import_module("checks." + prop.lower())
    except ImportError:
        print("HARNESS-ERROR: no check module for %s\n%s" % (prop, traceback.format_exc()))
        return 2
    opened, _fixed = load_known_findings(prop)
    ctx.open_findings = {o["id"] for o in opened}
    try:
        if a.replay:
            data = json.load(open(a.replay))
            out = mod.replay(ctx, data)
        else:
            out = mod.run(ctx)
            # saved regression inputs (shrunk failures of earlier findings) are replayed on every run
            import glob
            for rp in sorted(glob.glob(os.path.join(VERIF, "regress", prop.lower() + "_*.json"))):
                data = json.load(open(rp))
                if "case" not in data:
                    continue
                r = mod.replay(ctx, data)
                for v in r.violations:
                    v["desc"] = "regression input %s: %s" % (os.path.basename(rp), v["desc"])
                out.merge(r)
                out.hist["regression_inputs_replayed"] += 1
    except HarnessError as ex:
        print("HARNESS-ERROR (inconclusive, not a violation): %s" % ex)
        return 2
    except WorkerDied as ex:
        print("HARNESS-ERROR (inconclusive): unhandled worker death %s" % ex)
        return 2
    except Exception:
        print("HARNESS-ERROR (inconclusive): %s" % traceback.format_exc())
        return 2
    wall = time.time() - t0
    if not a.replay:
        path = write_evidence(ctx, mod, out, wall)
    for o in opened:
        print("KNOWN-FINDING: property=%s %s (matching cases this run, excluded from the search: %d)" % (
            prop, o["text"], out.known.get(o["id"], 0)))
    for fid in out.known:
        if fid not in ctx.open_findings:
            # a signature hit for a finding that is not listed as open is an ordinary violation;
            # checks only call known_hit() for listed ones, this is a safety net
            out.violation("finding %s matched but is not listed as open" % fid, out.known_examples.get(fid))
    for v in out.violations:
        rp = write_replay(ctx, v)
        print("VIOLATION property=%s replay=%s" % (prop, rp))
        print("  interp=%s :: %s" % (v.get("interp"), str(v.get("desc"))[:600]))
    print("%s tier=%s seed=%d evaluations=%d distinct_nontrivial=%d violations=%d wall=%.1fs" % (
        prop, ctx.tier, seed, out.evaluations, len(out.nontrivial), len(out.violations), wall))
    if not a.replay and len(out.nontrivial) < 2 and not out.violations:
        print("HARNESS-ERROR (inconclusive): fewer than 2 non-trivial cases were explored")
        return 2
    return 1 if out.violations else 0


if __name__ == "__main__":
    sys.exit(main())
