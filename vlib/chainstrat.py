"""G2 strategy (driver side): await / yield-from chain IRs."""
from hypothesis import strategies as st

LINKS = ["await_coro", "await_gencoro", "await_obj_wrapper", "await_obj_gen", "yield_from_gen",
         "async_for", "asend", "anext", "athrow", "aclose", "in_aexit", "in_with_body", "in_aexit_delself", "tbhide0", "tbhide1", "tbhide2",
         # asend(VALUE) into a running async generator; VALUE = suspended async generator / generator / coroutine /
         # an object with generator-like attributes / an int
         "asend_val0", "asend_val1", "asend_val2", "asend_val3", "asend_val4",
         # the anext() builtin, one- and two-argument forms, over a native async generator and over a class-based
         # async iterator whose __anext__ is a coroutine function
         "anext_builtin", "anext_default", "anext_custom", "anext_custom_default",
         # frames that hold managers open while the chain continues below them
         "agen_with_asend", "agen_with_async_for", "agen_with_anext", "gen_with_yield_from"]
ENDS = ["trap", "trap", "fut", "listiter", "falsyiter", "genlike"]
OUTERS = ["coro", "coro", "gen", "gencoro", "agen"]


@st.composite
def chains(draw, max_depth=6):
    links = draw(st.lists(st.tuples(st.sampled_from(LINKS), st.booleans()).map(list), min_size=0, max_size=max_depth))
    return {"outer": draw(st.sampled_from(OUTERS)), "outer_ml": draw(st.booleans()), "links": links,
            "end": draw(st.sampled_from(ENDS)), "nsusp": draw(st.sampled_from([1, 1, 2, 3]))}


def classes(ir):
    c = {"outer." + ir["outer"], "end." + ir["end"], "depth.%d" % len(ir["links"])}
    for pos, (k, ml) in enumerate(ir["links"]):
        c.add("link." + k)
        c.add("link.%s@%d" % (k, pos))
        if ml:
            c.add("multiline_link")
    return c


def nontrivial(ir):
    return len(ir["links"]) >= 1 and any(k != "await_coro" for k, _ in ir["links"])
