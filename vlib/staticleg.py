"""Driver side of the static standard-library legs (see vlib/wk/static.py)."""
from vlib.driver import Outcome, run_shards
from vlib.workers import WorkerDied, WorkerSet


def shard(arg):
    out = Outcome()
    with WorkerSet([arg["interp"]], hooks=False, timeout=1200) as ws:
        try:
            res = ws[arg["interp"]].request({"op": arg["op"], "index": arg["index"], "nshards": arg["nshards"]}, timeout=1200)
        except WorkerDied as ex:
            out.violation("interpreter %s died (exit %r) in the static leg" % (arg["interp"], ex.returncode), arg, arg["interp"])
            return out
    if res.get("skipped"):
        out.extra["static.skipped." + arg["interp"]] = res["skipped"]
        return out
    for k, v in res["stats"].items():
        out.extra["static.%s.%s" % (arg["interp"], k)] = v
    out.evaluations += res["stats"].get("sites", 0) + res["stats"].get("contexts", 0)
    out.per_interp[arg["interp"]] += 1
    for o in res["obs"][:2]:
        out.violation("static leg %s on %s: %r" % (arg["op"], arg["interp"], o), {"static": arg, "obs": o}, arg["interp"])
    return out


def run(ctx, out, op, interps):
    if ctx.quick:
        # a rotating sixth of the files per interpreter
        args = [{"op": op, "interp": i, "index": ctx.seed % 6, "nshards": 6} for i in interps]
    else:
        args = [{"op": op, "interp": i, "index": k, "nshards": 4} for i in interps for k in range(4)]
    r = run_shards("vlib.staticleg", "shard", args)
    out.merge(r)
    out.extra["static_leg"] = op
