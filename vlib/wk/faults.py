"""C05 (worker side): extraction scenarios with every hook kind registered, and fault plans that make the
k-th dynamic invocation of a hook raise.  Pure stdlib + stackscope; Python 3.9 syntax.

Sites: unwrap_stackitem, iter_step (a @yields_frames iterator step), elaborate_frame, context_analysis (the
contexts_active_in_frame call made for each frame), elaborate_context, unwrap_context, unwrap_context_generator.
"""
import linecache
import sys
import threading
import types
import warnings
from contextlib import AsyncExitStack, ExitStack, asynccontextmanager, contextmanager

import stackscope
import stackscope._extract as _extract_mod
from stackscope import (Context, Stack, elaborate_context, elaborate_frame, extract, unwrap_context,
                        unwrap_context_generator, unwrap_stackitem, yields_frames)

try:
    import greenlet
except ImportError:  # the bare interpreters
    greenlet = None


class Boom(Exception):
    pass


try:
    _EG = ExceptionGroup            # noqa: F821  (builtin on 3.11+)
except NameError:
    from exceptiongroup import ExceptionGroup as _EG      # what stackscope itself imports before 3.11


class BoomGroup(_EG):
    """a hook may well fail with an exception group of its own (a nursery, a TaskGroup); it is ONE error of the
    extraction and has to stay retrievable as the object it is"""


class T:
    """Fault-injection state + tracker of which extract_child invocation is innermost."""
    groups_injected = 0
    count = {}
    plan = set()
    fired = []       # (site, k, exception, token, frames_done_top, frames_done_token)
    tokens = []      # stack of active extract_child tokens
    results = {}     # token -> Stack returned
    frames_done = {}  # token -> number of frames whose elaborate_frame has returned
    ntoken = 0
    in_outermost = 0  # depth of active extract_outermost() calls (a helper extraction whose Stack is discarded)
    known = []
    failed_obj = None


def tick(site, obj=None):
    n = T.count[site] = T.count.get(site, 0) + 1
    if (site, n) in T.plan:
        if (n + len(site)) % 3 == 0:
            ex = BoomGroup("%s#%d" % (site, n), [Boom("member-a"), Boom("member-b")])
            T.groups_injected += 1
        else:
            ex = Boom("%s#%d" % (site, n))
        tok = T.tokens[-1] if T.tokens else None
        top = T.tokens[0] if T.tokens else None
        T.fired.append((site, n, ex, tok, T.frames_done.get(top, 0), T.frames_done.get(tok, 0), T.in_outermost > 0))
        if obj is not None and len(T.fired) == 1 and not T.tokens[1:]:
            T.failed_obj = obj      # the stack item whose unwrapping fails (top-level extraction only)
        raise ex


# ---- interposition on names the extraction loop looks up in its own module ---------------------------

_real_extract_outermost = _extract_mod.extract_outermost
_real_extract_child = _extract_mod.extract_child
_real_elaborate_frame = _extract_mod.elaborate_frame
_real_contexts = _extract_mod.contexts_active_in_frame


def _tracked_extract_child(stackitem, *, for_task):
    T.ntoken += 1
    tok = T.ntoken
    T.tokens.append(tok)
    T.frames_done[tok] = 0
    try:
        res = _real_extract_child(stackitem, for_task=for_task)
        T.results[tok] = res
        return res
    finally:
        T.tokens.pop()


def _tracked_extract_outermost(stackitem, **kw):
    T.in_outermost += 1
    try:
        return _real_extract_outermost(stackitem, **kw)
    finally:
        T.in_outermost -= 1


class _ElabProxy:
    """Counts completed frames per extraction, then delegates to the real code_dispatch object."""

    def __call__(self, frame, next_inner):
        try:
            return _real_elaborate_frame(frame, next_inner)
        finally:
            if T.tokens and T.in_outermost == 0:   # frames of a helper extract_outermost() are not the token's
                T.frames_done[T.tokens[-1]] += 1

    def __getattr__(self, name):
        return getattr(_real_elaborate_frame, name)


def _ticking_contexts(frame, origin=None, next_inner=None):
    tick("context_analysis")
    return _real_contexts(frame, origin, next_inner)


def install():
    for name in ("extract_child", "elaborate_frame", "contexts_active_in_frame", "extract_outermost"):
        if not hasattr(_extract_mod, name):
            raise RuntimeError("harness: stackscope._extract.%s has disappeared" % name)
    _extract_mod.extract_child = _tracked_extract_child
    _extract_mod.extract_outermost = _tracked_extract_outermost
    _extract_mod.elaborate_frame = _ElabProxy()
    _extract_mod.contexts_active_in_frame = _ticking_contexts


def uninstall():
    _extract_mod.extract_child = _real_extract_child
    _extract_mod.extract_outermost = _real_extract_outermost
    _extract_mod.elaborate_frame = _real_elaborate_frame
    _extract_mod.contexts_active_in_frame = _real_contexts


# ---- managers and hooks ------------------------------------------------------------------------------

@types.coroutine
def trap(v):
    return (yield v)


class CM:
    def __init__(self, k):
        self.k = k

    def __enter__(self):
        return self

    def __exit__(self, *a):
        pass

    async def __aenter__(self):
        return self

    async def __aexit__(self, *a):
        pass

    def __repr__(self):
        return "%s(%s)" % (type(self).__name__, self.k)

    def __eq__(self, other):   # so that Context objects of two extractions of the same state compare equal
        return type(self) is type(other) and self.k == other.k

    def __hash__(self):
        return hash((type(self).__name__, self.k))


class Wrap(CM):
    pass


@elaborate_context.register(CM)
def _elab_cm(m, ctx):
    tick("elaborate_context")
    ctx.description = "cm%s" % m.k


@unwrap_context.register(Wrap)
def _unwrap_wrap(m, ctx):
    tick("unwrap_context")
    return CM(m.k + 100)


@contextmanager
def gcm0(k):
    with CM(k):
        yield k


@contextmanager
def gcm1(k, sub):
    with sub:
        yield k


@asynccontextmanager
async def agcm0(k):
    with CM(k):
        yield k


@asynccontextmanager
async def agcm1(k, sub):
    async with sub:
        yield k


@asynccontextmanager
async def agcm_x(k):
    """suspends again while exiting (after its yield), so the frame can be observed with this manager exiting"""
    with CM(k):
        yield k
        await trap("in-exit")


@contextmanager
def gcmu(k):
    """a wrapper that is unwrapped: its hook hands out the manager it holds open"""
    with CM(k):
        yield k


@asynccontextmanager
async def agcmu(k):
    with CM(k):
        yield k


@contextmanager
def gcmu1(k, sub):
    """an unwrapped wrapper around an arbitrary manager: what is discarded with it may itself have stacks below it"""
    with sub:
        yield k


@asynccontextmanager
async def agcmu1(k, sub):
    async with sub:
        yield k


def _unwrapping_hook(frame, ctx):
    tick("unwrap_context_generator")
    return frame.contexts[0].obj if frame.contexts else None


unwrap_context_generator.register(gcmu, _unwrapping_hook)
unwrap_context_generator.register(agcmu, _unwrapping_hook)
unwrap_context_generator.register(gcmu1, _unwrapping_hook)
unwrap_context_generator.register(agcmu1, _unwrapping_hook)


for _g in (gcm0, gcm1, agcm0, agcm1, agcm_x):
    def _mk(g):
        def hook(frame, ctx):
            tick("unwrap_context_generator")
            return None
        return hook
    unwrap_context_generator.register(_g, _mk(_g))


def some_cb(*a, **kw):
    pass


class Item:
    def __init__(self, kids, mode):
        self.kids, self.mode = kids, mode

    def __repr__(self):
        return "<Item %s>" % self.mode


@unwrap_stackitem.register(Item)
def _unwrap_item(it):
    tick("unwrap_stackitem", it)
    if it.mode == "tuple":
        return tuple(it.kids)

    @yields_frames
    def gen():
        for k in it.kids:
            tick("iter_step", k)
            yield k
    return gen()


def _hidden_gen():
    yield


def _plain_gen():
    yield


stackscope.customize(_hidden_gen, hide=True)


def _parked(fn):
    g = fn()
    next(g)
    return g


def make_mgr(spec, is_async):
    """spec: ["cm",k] | ["wrap",k] | ["gcm",k] | ["gcm1",k,spec] | ["stack",[entries]]"""
    t = spec[0]
    if t == "cm":
        return CM(spec[1])
    if t == "wrap":
        return Wrap(spec[1])
    if t == "gcm":
        return agcm0(spec[1]) if is_async else gcm0(spec[1])
    if t == "gcmu":
        return agcmu(spec[1]) if is_async else gcmu(spec[1])
    if t == "gcm1":
        return agcm1(spec[1], make_mgr(spec[2], True)) if is_async else gcm1(spec[1], make_mgr(spec[2], False))
    if t == "gcmu1":
        return agcmu1(spec[1], make_mgr(spec[2], True)) if is_async else gcmu1(spec[1], make_mgr(spec[2], False))
    if t == "stack":
        return AsyncExitStack() if is_async else ExitStack()
    if t == "gcmx":
        return agcm_x(spec[1])
    raise AssertionError(spec)


def fill_stack(st, entries):
    for e in entries:
        t = e[0]
        if t == "cm":
            st.enter_context(CM(e[1]))
        elif t == "wrap":
            st.enter_context(Wrap(e[1]))
        elif t == "gcm":
            st.enter_context(gcm0(e[1]))
        elif t == "gcmu":
            st.enter_context(gcmu(e[1]))
        elif t == "callback":
            st.callback(some_cb, 1, x=2)
        elif t == "push_fn":
            st.push(some_cb)
        else:
            raise AssertionError(e)


NFUNC = [0]


def make_level(level, nxt_factory, hooks):
    """One coroutine function for a chain level: nested with statements, one per manager, then `await`.
    Built from generated source so that each level has its own code object (own elaborate_frame hook)."""
    NFUNC[0] += 1
    name = "lv%d" % NFUNC[0]
    lines = ["async def %s(mgrs, fills, nxt):" % name]
    ind = 1
    for i, (spec, is_async) in enumerate(level["mgrs"]):
        lines.append("    " * ind + ("async with" if is_async else "with") + " mgrs[%d] as v%d:" % (i, i))
        ind += 1
        if spec[0] == "stack":
            lines.append("    " * ind + "fills(v%d, %d)" % (i, i))
    lines.append("    " * ind + "await nxt()")
    src = "\n".join(lines) + "\n"
    fname = "<c05-%s>" % name
    linecache.cache[fname] = (len(src), None, src.splitlines(True), fname)
    ns = {}
    exec(compile(src, fname, "exec"), ns)
    fn = ns[name]
    if level.get("elab", True):
        def hook(frame, next_inner):
            tick("elaborate_frame")
            return None
        elaborate_frame.register(fn, hook)
    mgrs = [make_mgr(spec, is_async) for spec, is_async in level["mgrs"]]

    def fills(st, i):
        fill_stack(st, level["mgrs"][i][0][1])
    return fn(mgrs, fills, nxt_factory)


def build_chain(levels):
    def factory(i):
        if i >= len(levels):
            return lambda: trap("x")
        return lambda: make_level(levels[i], factory(i + 1), True)
    return factory(0)()


class Scenario:
    def __init__(self, ir):
        self.ir = ir
        self.cleanup = []

    def start(self):
        ir = self.ir
        kind = ir["kind"]
        if kind == "coro":
            levels = ir["levels"]
            if ir.get("exit_phase"):
                # innermost manager of the innermost level suspends in its own exit
                levels = [dict(l) for l in levels]
                levels[-1]["mgrs"] = list(levels[-1]["mgrs"]) + [[["gcmx", 97], True]]
            co = build_chain(levels)
            co.send(None)
            if ir.get("exit_phase"):
                if co.send(None) != "in-exit":
                    raise RuntimeError("harness: scenario did not suspend in the exiting manager")
            self.cleanup.append(co.close)
            target = co
        elif kind == "thread":
            ev, ready = threading.Event(), threading.Event()

            def inner():
                with CM(77), Wrap(79), gcm0(80):
                    ready.set()
                    ev.wait(30)

            def body():
                with ExitStack() as es:
                    es.enter_context(CM(76))
                    es.callback(some_cb)
                    inner()
            th = threading.Thread(target=body, daemon=True)
            th.start()
            if not ready.wait(10):
                raise RuntimeError("harness: thread did not become ready")

            def stop():
                ev.set()
                th.join(10)
            self.cleanup.append(stop)
            target = th
        elif kind == "greenlet":
            def gbody():
                with CM(78):
                    greenlet.getcurrent().parent.switch("parked")
            g = greenlet.greenlet(gbody)
            g.switch()
            self.cleanup.append(lambda: g.throw(greenlet.GreenletExit))
            target = g
        else:
            raise AssertionError(kind)
        entry = ir.get("entry", "direct")
        if entry == "item_iter":
            target = Item([target], "iter")
        elif entry == "item_tuple":
            target = Item([target], "tuple")
        elif entry == "item_nested":
            target = Item([Item([target], "iter")], "tuple")
        elif entry in ("after_hidden_tuple", "after_hidden_iter"):
            # frames (one of them hidden by customize(hide=True)) that are OUTWARD of an item whose unwrapping can fail
            gens = [_parked(_hidden_gen), _parked(_plain_gen), _parked(_hidden_gen)]
            self.cleanup.extend(g.close for g in gens)
            mode = entry.rsplit("_", 1)[1]
            target = Item(gens + [Item([target], mode)], "tuple" if mode == "iter" else "iter")
        return target

    def stop(self):
        for c in self.cleanup:
            try:
                c()
            except BaseException:
                pass


def walk_stacks(st, out):
    out.append(st)
    for f in st.frames:
        for c in f.contexts:
            _walk_ctx(c, out)


def _walk_ctx(c, out):
    if c.inner_stack is not None:
        walk_stacks(c.inner_stack, out)
    for ch in c.children:
        if isinstance(ch, Stack):
            walk_stacks(ch, out)
        else:
            _walk_ctx(ch, out)


def errors_of(st):
    """the exceptions retrievable from st.error: itself, or - recursively - the members of exception groups"""
    if st.error is None:
        return []
    out, todo = [], [st.error]
    while todo:
        e = todo.pop(0)
        sub = getattr(e, "exceptions", None)
        if sub is not None and type(e).__name__ == "ExceptionGroup":      # (an injected BoomGroup is a leaf here)
            todo = list(sub) + todo
        else:
            out.append(e)
    return out


def run_plan(target, plan):
    T.count = {}
    T.plan = set(tuple(p) for p in plan)
    T.fired = []
    T.tokens = []
    T.results = {}
    T.frames_done = {}
    T.in_outermost = 0
    T.failed_obj = None
    with warnings.catch_warnings(record=True) as w:
        warnings.simplefilter("always")
        try:
            st = extract(target)
        except BaseException as ex:
            return None, repr(ex), w
    return st, None, w


def judge(base, st, plan):
    """The C05 oracle for one faulted extraction; returns a list of problem strings."""
    problems = []
    if not isinstance(st, Stack):
        return ["extract returned %r, not a Stack" % type(st).__name__]
    stacks = []
    walk_stacks(st, stacks)
    for (site, k, ex, tok, done_top, done_tok, in_outermost) in T.fired:
        holders = [s for s in stacks if any(e is ex for e in errors_of(s))]
        if not holders:
            if in_outermost:
                # F12 signature: raised inside a helper extract_outermost() after it had produced its frame; the
                # helper's error list is discarded together with it
                T.known.append({"site": site, "k": k})
                continue
            problems.append("exception injected at %s#%d is not retrievable from any .error" % (site, k))
            continue
        holder = holders[0]
        want = T.results.get(tok)
        if want is not None and holder is not want and any(x is want for x in stacks):
            # (a Stack that was being built for a wrapper manager which was then unwrapped is not part of the result any
            # more; its errors are reported one level up)
            problems.append("exception injected at %s#%d is reported on a different Stack than the one being built" % (site, k))
        errs = errors_of(holder)
        if len(errs) == 1 and holder.error is not ex:
            problems.append("a single error must be reported as itself, got %r" % (holder.error,))
        if len(errs) > 1 and type(holder.error).__name__ != "ExceptionGroup":
            problems.append("several errors not wrapped in an ExceptionGroup")
    if T.fired:
        # every frame outward of the (first) failure is present and identical to the fault-free extraction
        done_top = T.fired[0][4]
        if len(st.frames) < done_top:
            problems.append("only %d frames, but %d were complete before the fault" % (len(st.frames), done_top))
        for i in range(min(done_top, len(st.frames), len(base.frames))):
            a, b = st.frames[i], base.frames[i]
            if (a.pyframe is not b.pyframe or a.lineno != b.lineno or a.hide != b.hide or a.hide_line != b.hide_line
                    or a.origin is not b.origin):
                problems.append("frame %d outward of the failure differs from the fault-free extraction" % i)
                break
            if a.contexts != b.contexts:
                problems.append("contexts of frame %d (outward of the failure) differ from the fault-free extraction" % i)
                break
        bf = [f.pyframe for f in base.frames]
        sf = [f.pyframe for f in st.frames]
        if T.failed_obj is not None and len(T.fired) == 1 and T.fired[0][0] in ("unwrap_stackitem", "iter_step"):
            # a failure while UNWRAPPING an item: the frames outward of it are those that precede, in the fault-free
            # stack, the first frame found inside that item (whether or not their hooks had run when the fault fired)
            fired, failed = T.fired, T.failed_obj
            sub, _r, _w = run_plan(failed, [])
            T.fired = fired
            if sub is not None and sub.frames and sub.frames[0].pyframe in bf:
                n_out = bf.index(sub.frames[0].pyframe)
                if len(st.frames) < n_out:
                    problems.append("only %d frames, but %d are outward of the item whose unwrapping failed" % (
                        len(st.frames), n_out))
                for i in range(min(n_out, len(st.frames))):
                    a, b = st.frames[i], base.frames[i]
                    if (a.pyframe is not b.pyframe or a.lineno != b.lineno or a.hide != b.hide or a.hide_line != b.hide_line
                            or a.origin is not b.origin or a.contexts != b.contexts):
                        problems.append("frame %d (%s), outward of the item whose unwrapping failed, differs from the "
                                        "fault-free extraction: hide %r/%r hide_line %r/%r" % (
                                            i, a.funcname, a.hide, b.hide, a.hide_line, b.hide_line))
                        break
        if sf != bf[:len(sf)]:
            problems.append("frames are not a prefix of the fault-free frames: %r vs %r" % (
                [f.funcname for f in st.frames], [f.funcname for f in base.frames]))
        # the holder's own frames: prefix of the corresponding fault-free stack (matched by root identity)
        bstacks = []
        walk_stacks(base, bstacks)
        for (site, k, ex, tok, _d, done_tok, _io) in T.fired:
            want = T.results.get(tok)
            if want is None or want is st:
                continue
            twin = [b for b in bstacks if b.root is want.root and b is not base]
            if twin:
                tf = [f.pyframe for f in twin[0].frames]
                wf = [f.pyframe for f in want.frames]
                if wf != tf[:len(wf)] or len(wf) < done_tok:
                    problems.append("inner stack of %r lost frames outward of the failure" % (want.root,))
    try:
        str(st)
        st.format()
        st.format(ascii_only=True, show_hidden_frames=True)
        st.format_flat()
        st.format_flat(show_contexts=True)
        st.as_stdlib_summary(show_contexts=True)
        st.as_stdlib_summary(show_contexts=True, show_hidden_frames=True, capture_locals=True)
    except BaseException as ex:
        problems.append("result cannot be formatted/summarised: %r" % ex)
    return problems


def run_c05(req):
    ir = req["ir"]
    if ir["kind"] == "greenlet" and greenlet is None:
        return {"skipped": "no greenlet on this interpreter"}
    sc = Scenario(ir)
    install()
    obs = []
    stats = {"plans": 0, "fired": 0, "nontrivial_plans": 0, "pairs": 0, "sites": {}}
    T.known = []
    try:
        target = sc.start()
        base, raised, w = run_plan(target, [])
        if raised or base is None:
            return {"obs": [{"kind": "baseline_raised", "exc": raised}], "stats": stats}
        if base.error is not None:
            return {"obs": [{"kind": "baseline_error", "exc": repr(base.error)}], "stats": stats}
        counts = dict(T.count)
        stats["sites"] = counts
        stats["base_frames"] = len(base.frames)
        singles = [(site, k) for site in sorted(counts) for k in range(1, counts[site] + 1)]
        plans = [[p] for p in singles]
        allpairs = [(a, b) for i, a in enumerate(singles) for b in singles[i + 1:]]
        if allpairs:
            if len(allpairs) <= req.get("max_pairs", 0):
                plans += [list(p) for p in allpairs]
            else:
                for pick in req.get("pair_picks", []):
                    plans.append(list(allpairs[pick % len(allpairs)]))
                # always: two faults at neighbouring invocations of the same hook kind (siblings: two children of one
                # exit stack, two contexts of one frame, two items of one sequence)
                for site in sorted(counts):
                    for k in range(1, counts[site]):
                        plans.append([(site, k), (site, k + 1)])
                        if k + 2 <= counts[site]:
                            plans.append([(site, k), (site, k + 2)])
        for plan in plans:
            st, raised, w = run_plan(target, plan)
            stats["plans"] += 1
            if len(plan) > 1:
                stats["pairs"] += 1
            if raised:
                obs.append({"kind": "extract_raised", "plan": plan, "exc": raised})
                continue
            if not T.fired:
                obs.append({"kind": "harness_fault_did_not_fire", "plan": plan})
                continue
            stats["fired"] += len(T.fired)
            if T.fired[0][4] >= 2:
                stats["nontrivial_plans"] += 1
            for p in judge(base, st, plan):
                obs.append({"kind": "oracle", "plan": plan, "problem": p,
                            "frames": [f.funcname for f in st.frames], "error": repr(st.error)[:200]})
            if len(obs) > 6:
                break
    finally:
        uninstall()
        sc.stop()
        T.plan = set()
    harness = [o for o in obs if o["kind"].startswith("harness")]
    if harness:
        return {"harness_error": repr(harness[:2])}
    return {"obs": obs, "stats": stats, "known": T.known[:50], "known_count": len(T.known)}


RETURNS = [None]


class ReturnsHostile:
    pass


@unwrap_stackitem.register(ReturnsHostile)
def _unwrap_returns_hostile(it):
    return RETURNS[0]


def run_objects(req):
    """extract(o) for non-stack objects."""
    obs = []
    n = 0
    import collections
    import io
    objs = [None, 0, 1, -5, 2 ** 70, 1.5, float("nan"), 1j, "", "abc", b"xy", bytearray(b"z"), (), (1, 2), [], [1, [2]],
            {}, {"a": 1}, set(), frozenset([1]), range(3), slice(1, 2), Ellipsis, NotImplemented, object(), object,
            int, type, len, print, some_cb, CM, CM(1), CM.__enter__, CM(2).__enter__, lambda: 0, sys, types, warnings,
            sys._getframe().f_code, Boom("x"), Boom, ValueError, io.StringIO(), collections.deque([1]), iter([1, 2]),
            iter(()), reversed([1]), enumerate([1]), zip(), map(len, []), memoryview(b"ab"), property(), staticmethod(len),
            classmethod(len), super(Boom, Boom("y")), threading.Lock(), threading.Event(), threading.current_thread,
            Stack(root=None, frames=[]), Context(obj=None, is_async=False), stackscope.StackSlice, extract]
    try:
        raise KeyError("tb")
    except KeyError as e:
        objs.append(e.__traceback__)
    # objects that misbehave when merely looked at: "whatever object it is given"
    import weakref

    class Plain:
        pass

    class BadRepr:
        def __repr__(self):
            raise ValueError("repr refuses")

    class BadClass:
        @property
        def __class__(self):
            raise RuntimeError("__class__ refuses")

    class BadGetattr:
        def __getattr__(self, name):
            raise RuntimeError("no attribute lookups, thanks (%s)" % name)

    class BadEq:
        def __eq__(self, other):
            raise RuntimeError("eq refuses")

        def __hash__(self):
            raise RuntimeError("hash refuses")

    class BadBool:
        def __bool__(self):
            raise RuntimeError("bool refuses")

        def __len__(self):
            raise RuntimeError("len refuses")

    class BadIter:
        def __iter__(self):
            raise RuntimeError("iter refuses")

        def __getitem__(self, i):
            raise RuntimeError("getitem refuses")

    victim = Plain()
    dead_proxy = weakref.proxy(victim)
    dead_ref = weakref.ref(victim)
    live = Plain()
    hostile = [dead_proxy, dead_ref, weakref.proxy(live), BadRepr(), BadClass(), BadGetattr(), BadEq(), BadBool(), BadIter()]
    del victim
    for o in hostile:
        n += 1
        try:
            st = extract(o)
        except BaseException as ex:
            obs.append({"kind": "extract_raised", "obj": type(o).__name__, "exc": repr(ex)[:200]})
            continue
        try:
            if type(st) is not Stack or st.frames:
                obs.append({"kind": "hostile_object", "obj": str(type(o)), "frames": len(st.frames)})
            str(st)
            st.format(ascii_only=True, show_hidden_frames=True)
            st.format_flat()
            st.as_stdlib_summary(show_contexts=True)
        except BaseException as ex:
            obs.append({"kind": "format_raised", "obj": str(type(o)), "exc": repr(ex)[:200]})
    # the same objects where a program may well have them: as the `self` / `cls` argument of a suspended function (the
    # frame's class name is looked up through it), as the value a hook hands back
    def held_as_self(self):
        yield

    def held_as_cls(cls):
        yield

    class Returns:
        def __init__(self, value):
            self.value = value

    for o in hostile:
        for fn in (held_as_self, held_as_cls):
            n += 1
            g = fn(o)
            next(g)
            try:
                st = extract(g)
                if [f.pyframe for f in st.frames] != [g.gi_frame] or st.error is not None:
                    obs.append({"kind": "hostile_argument", "obj": type(o).__name__, "held": fn.__name__,
                                "frames": len(st.frames), "error": repr(st.error)[:200]})
                str(st)
                st.format(ascii_only=True, show_hidden_frames=True)
                st.format_flat(show_contexts=True)
                st.as_stdlib_summary(show_contexts=True)
            except BaseException as ex:
                obs.append({"kind": "format_raised", "obj": type(o).__name__, "held": fn.__name__, "exc": repr(ex)[:200]})
            finally:
                g.close()
        # handed back by an unwrap_stackitem hook: extract() still returns a Stack (whatever it makes of the value)
        n += 1
        RETURNS[0] = o
        try:
            st = extract(ReturnsHostile())
            if type(st) is not Stack:
                obs.append({"kind": "not_a_stack", "obj": type(o).__name__})
            str(st)
            st.format_flat()
        except BaseException as ex:
            obs.append({"kind": "extract_raised", "obj": type(o).__name__, "where": "value returned by an unwrap_stackitem hook",
                        "exc": repr(ex)[:200]})
        finally:
            RETURNS[0] = None
    for v in req.get("values", []):
        objs.append(v)
        objs.append(tuple(v) if isinstance(v, list) else v)
    for o in objs:
        n += 1
        with warnings.catch_warnings(record=True) as w:
            warnings.simplefilter("always")
            try:
                st = extract(o)
            except BaseException as ex:
                obs.append({"kind": "extract_raised", "obj": repr(o)[:80], "exc": repr(ex)})
                continue
        if not isinstance(st, Stack):
            obs.append({"kind": "not_a_stack", "obj": repr(o)[:80]})
            continue
        if st.frames or st.error is not None or not (st.leaf is o or (o is None and st.leaf is None)):
            obs.append({"kind": "non_stack_object", "obj": repr(o)[:80], "frames": len(st.frames),
                        "error": repr(st.error), "leaf": repr(st.leaf)[:80]})
        try:
            str(st)
            st.format_flat()
        except BaseException as ex:
            obs.append({"kind": "format_raised", "obj": repr(o)[:80], "exc": repr(ex)})
    # a frame object is a stack item in its own right: exactly that frame
    fr = sys._getframe()
    st = extract(fr, with_contexts=False)
    if [f.pyframe for f in st.frames] != [fr] or st.error is not None:
        obs.append({"kind": "frame_object", "frames": [f.funcname for f in st.frames], "error": repr(st.error)})
    return {"obs": obs, "stats": {"objects": n}}


def run_unreadable_source(req):
    """frames whose source text cannot be fetched - a file name the operating system refuses (a lone surrogate: compile()
    accepts it), a module whose loader's get_source() raises - with and without a fault on top: the Stack formats and
    summarises all the same, the line of source simply missing"""
    import stackscope
    obs = []

    class BadLoader:
        def get_source(self, name):
            raise ValueError("this loader cannot decode its source")

    src = "def g(hook):\n    with open('/dev/null') as f:\n        yield hook\n"
    for how in ("surrogate_filename", "failing_loader"):
        for fault in (False, True):
            ns = {"__name__": "unreadable_%s" % how}
            fname = "bad\ud800name.py" if how == "surrogate_filename" else "<unreadable-%d>" % fault
            if how == "failing_loader":
                ns["__loader__"] = BadLoader()
            exec(compile(src, fname, "exec"), ns)
            g = ns["g"](None)
            next(g)
            item = g
            if fault:
                class Wrapper:
                    pass
                w = Wrapper()

                @stackscope.unwrap_stackitem.register(Wrapper)
                def _unwrap(x, g=g):
                    return [g, Failing()]

                class Failing:
                    pass

                @stackscope.unwrap_stackitem.register(Failing)
                def _fail(x):
                    raise ValueError("injected")
                item = w
            try:
                st = stackscope.extract(item)
            except BaseException as ex:
                obs.append({"kind": "extract_raised", "how": how, "exc": repr(ex)})
                continue
            if fault and st.error is None:
                obs.append({"kind": "fault_not_reported", "how": how})
            if not st.frames:
                obs.append({"kind": "frames_lost", "how": how})
            for what, fn in (("str", lambda: str(st)), ("format", lambda: st.format(ascii_only=True, show_hidden_frames=True)),
                             ("format_flat", lambda: st.format_flat(show_contexts=True)),
                             ("summary", lambda: st.as_stdlib_summary(show_contexts=True).format()),
                             ("summary_locals", lambda: st.as_stdlib_summary(show_contexts=True, capture_locals=True).format())):
                try:
                    fn()
                except BaseException as ex:
                    obs.append({"kind": "result_cannot_be_formatted_or_summarised", "how": how, "fault": fault, "what": what,
                                "exc": repr(ex)[:160]})
                    break
            g.close()
    return {"obs": obs[:4], "stats": {"objects": 4}}


def handle(req):
    op = req["op"]
    if op == "faults.unreadable_source":
        return run_unreadable_source(req)
    if op == "faults.c05":
        return run_c05(req)
    if op == "faults.objects":
        return run_objects(req)
    raise AssertionError(op)
