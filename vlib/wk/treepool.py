"""Layout of the G4 frame pool: a pure function of the index (shared by worker and driver)."""
NPOOL = 12
FRAME_LINE = 4


def pool_filename(i):
    return "<trees-fn%d>" % i


def pool_source(i):
    return ("def fn%d():\n"
            "    tl_%d_2 = 'x'\n"
            "    tl_%d_3 = 'y'\n"
            "    yield %d\n" % (i, i, i, i))


def pool_line(i, lineno):
    lines = pool_source(i).splitlines()
    if 1 <= lineno <= len(lines):
        return lines[lineno - 1].strip()
    return ""


