"""C07 (worker side): thread stacks - exact when blocked, memory-safe when racing.
Pure stdlib + stackscope; Python 3.9 syntax.  The racing leg needs the guarded yield points
(STACKSCOPE_VERIF=1) and CPython >= 3.11.
"""
import sys
import threading
import types
import warnings
from contextlib import contextmanager

import stackscope
from stackscope import extract, extract_outermost, extract_since
from stackscope.lowlevel import contexts_active_in_frame

HERE = __file__


# ===================================================================================== blocked leg

class CM:
    def __init__(self, lvl, j):
        self.lvl, self.j = lvl, j

    def __enter__(self):
        return self

    def __exit__(self, *a):
        return False

    def __repr__(self):
        return "CM(%d,%d)" % (self.lvl, self.j)


class World:
    def __init__(self, nm):
        self.nm = nm            # managers per level
        self.frames = []        # shadow call log, outermost first
        self.mgrs = []          # per level: managers entered so far
        self.ready = threading.Event()
        self.go = threading.Event()
        self.lock = threading.Lock()
        self.lock.acquire()       # held by the harness: a level that calls lock.acquire() itself blocks in C

    def enter(self, frame):
        self.frames.append(frame)
        self.mgrs.append([])

    def mk(self, i, j):
        m = CM(i, j)
        self.mgrs[i].append(m)
        return m

    def kw(self, i):
        return {"i": i}

    def nxt(self, i):
        if i + 1 < len(self.nm):
            return level_func(*self.nm[i + 1])(self, i + 1)
        else:
            self.ready.set()
            self.go.wait(60)


CALLS = ["plain", "ret", "star", "retstar", "kw", "retkw", "c_plain", "c_ret", "c_star", "c_retstar"]
_LEVEL_FUNCS = {}
LEVEL_CODES = set()


def level_func(shape, call):
    """One level of a blocked thread body: `shape` picks the with nesting (0 none / 1 one / 2 two nested / 3 two items +
    try/finally + one), `call` the form of the call that leads inward - plain, returned, with *args or **kwargs (these
    compile to different call instructions), or, for the innermost level (`c_*`), a blocking call of a C-implemented
    callable made by the level's own frame."""
    key = (shape, call)
    fn = _LEVEL_FUNCS.get(key)
    if fn is not None:
        return fn
    cname = CALLS[call]
    if cname.startswith("c_"):
        target, args = "w.lock.acquire", "True, 60"
        pre = ["w.ready.set()"]
    else:
        target, args = "w.nxt", "i"
        pre = []
    base = cname.replace("c_", "")
    if base in ("plain", "ret"):
        expr = "%s(%s)" % (target, args)
    elif base in ("star", "retstar"):
        expr = "%s(*(%s,))" % (target, args) if "," not in args else "%s(*(%s))" % (target, args)
    else:
        expr = "%s(**w.kw(i))" % target
    stmt = ("return " if base.startswith("ret") else "") + expr
    lines = ["def lvl(w, i):", "    w.enter(sys._getframe())"]
    ind = 1
    if shape == 1:
        lines.append("    with w.mk(i, 0) as a:")
        ind = 2
    elif shape == 2:
        lines += ["    with w.mk(i, 0) as a:", "        with w.mk(i, 1):"]
        ind = 3
    elif shape == 3:
        lines += ["    with w.mk(i, 0) as a, w.mk(i, 1) as b:", "        try:", "            with w.mk(i, 2):"]
        ind = 4
    elif shape == 4:
        # as many nested with blocks as one frame can hold (20 on CPython <= 3.11, whose 3.12.1 successor's compiler
        # crashes on 19+ nested with statements: 17 there)
        nest = 20 if sys.version_info < (3, 12) else 17
        for k in range(nest):
            lines.append("    " * (1 + k) + "with w.mk(i, %d):" % k)
        ind = 1 + nest
    for ln in pre + [stmt]:
        lines.append("    " * ind + ln)
    if shape == 3:
        lines += ["        finally:", "            pass"]
    src = "\n".join(lines) + "\n"
    ns = {"sys": sys}
    exec(compile(src, "<c07-level-%d-%s>" % (shape, cname), "exec"), ns)
    fn = ns["lvl"]
    _LEVEL_FUNCS[key] = fn
    LEVEL_CODES.add(fn.__code__)
    return fn


def norm_levels(levels):
    out = []
    for lv in levels:
        out.append([lv, 0] if isinstance(lv, int) else [lv[0], lv[1]])
    # only the innermost level may block in C by itself; the others must lead inward
    for k, lv in enumerate(out):
        if k < len(out) - 1 and lv[1] >= 6:
            lv[1] -= 6
    return out


def run_blocked(req):
    nm = norm_levels(req["levels"])
    obs = []
    w = World(nm)
    tkind = req.get("thread_kind", "target")
    entry = level_func(*nm[0])
    if tkind == "target":
        th = threading.Thread(target=entry, args=(w, 0), daemon=True)
    elif tkind == "subclass":
        class Sub(threading.Thread):
            def run(self):
                entry(w, 0)
        th = Sub(daemon=True)
    elif tkind == "timer":
        th = threading.Timer(0.0, entry, args=(w, 0))
        th.daemon = True
    elif tkind == "raw":
        # a thread not created through the threading module: its Thread object is the dummy made on first request
        import _thread
        box = {}

        def raw_entry():
            box["t"] = threading.current_thread()
            box["got"].set()
            entry(w, 0)
        box["got"] = threading.Event()
        th = None
    else:
        raise AssertionError(tkind)
    if th is not None:
        # not started yet
        st = extract(th)
        if st.frames or st.error is not None:
            obs.append({"kind": "unstarted_thread", "frames": len(st.frames), "error": repr(st.error)})
        th.start()
    else:
        _thread.start_new_thread(raw_entry, ())
        if not box["got"].wait(30):
            return {"harness_error": "raw thread did not start"}
        th = box["t"]
    if not w.ready.wait(30):
        return {"harness_error": "thread did not reach its blocking point"}
    if nm[-1][1] >= 6:
        # the innermost level signals and THEN blocks in lock.acquire(): wait until its frame has stopped moving
        import time
        stable, last = 0, None
        for _ in range(5000):
            f = sys._current_frames().get(th.ident)
            pos = (id(f), f.f_lasti) if f is not None else None
            if f is not None and f.f_code in LEVEL_CODES and pos == last:
                stable += 1
                if stable >= 5:
                    break
            else:
                stable, last = 0, pos
            time.sleep(0.001)
        else:
            w.lock.release()
            return {"harness_error": "thread did not settle in its blocking call"}
    try:
        with warnings.catch_warnings(record=True) as ws:
            warnings.simplefilter("always")
            try:
                st = extract(th)
            except BaseException as ex:
                obs.append({"kind": "raised", "exc": repr(ex)})
                st = None
        for x in ws:
            obs.append({"kind": "warning", "msg": str(x.message)[:200]})
        if st is not None:
            if st.error is not None:
                obs.append({"kind": "error", "exc": repr(st.error)})
            if st.root is not th:
                obs.append({"kind": "root"})
            mine = [f for f in st.frames if f.pyframe.f_code in LEVEL_CODES]
            if [f.pyframe for f in mine] != w.frames:
                obs.append({"kind": "thread_frames", "got": [f.funcname for f in mine], "exp": len(w.frames)})
            else:
                for i, f in enumerate(mine):
                    got = [c.obj for c in f.contexts]
                    if got != w.mgrs[i] or any(c.is_exiting for c in f.contexts):
                        obs.append({"kind": "thread_frame_contexts", "level": i, "got": [repr(o) for o in got],
                                    "exp": [repr(o) for o in w.mgrs[i]]})
                # frames outward of the harness root are threading internals: hidden; none inward is missing
                first = st.frames.index(mine[0]) if mine else 0
                for f in st.frames[:first]:
                    if f.pyframe.f_code.co_name in ("run", "raw_entry") and f.filename == HERE:
                        continue    # the harness's own Thread.run override / raw entry point
                    if tkind == "timer" and f.pyframe.f_code is threading.Timer.run.__code__:
                        continue    # Timer.run is ordinary library code, not one of the bootstrap frames
                    if not f.hide:
                        obs.append({"kind": "threading_internals_not_hidden", "frame": f.funcname})
                # the frames are exactly the thread's f_back chain (outermost first)
                inner = sys._current_frames().get(th.ident)
                chain = []
                while inner is not None:
                    chain.append(inner)
                    inner = inner.f_back
                if [f.pyframe for f in st.frames] != chain[::-1]:
                    obs.append({"kind": "not_the_threads_f_back_chain", "got": len(st.frames), "exp": len(chain)})
            # C16: extract_outermost agrees
            try:
                fo = extract_outermost(th)
                if not st.frames or fo.pyframe is not st.frames[0].pyframe:
                    obs.append({"kind": "outermost"})
            except BaseException as ex:
                obs.append({"kind": "outermost_raised", "exc": repr(ex)})
    finally:
        w.go.set()
        w.lock.release()
        if tkind != "raw":
            th.join(30)
    if tkind == "raw":
        return {"obs": obs[:6], "stats": {"depth": len(nm), "managers": sum(x[0] for x in nm)}}
    st = extract(th)
    if st.frames or st.error is not None:
        obs.append({"kind": "finished_thread", "frames": len(st.frames), "error": repr(st.error)})
    return {"obs": obs[:6], "stats": {"depth": len(nm), "managers": sum(x[0] for x in nm)}}


def run_deep(req):
    """a blocked thread whose stack is deeper than the recursion limit in force when it is inspected (it went deep while
    the limit was raised; the limit has been lowered again since)"""
    old = sys.getrecursionlimit()
    n = old + req.get("extra", 300)
    ev, ready = threading.Event(), threading.Event()

    def descend(k):
        if k == 0:
            ready.set()
            ev.wait(60)
            return 0
        return descend(k - 1) + 1

    def entry():
        descend(n)

    obs = []
    sys.setrecursionlimit(n + 500)
    try:
        th = threading.Thread(target=entry, daemon=True)
        th.start()
        ok = ready.wait(60)
    finally:
        sys.setrecursionlimit(old)
    if not ok:
        ev.set()
        return {"harness_error": "deep thread did not reach its blocking point"}
    try:
        with warnings.catch_warnings(record=True) as w:
            warnings.simplefilter("always")
            try:
                st = extract(th, with_contexts=False)
            except BaseException as ex:
                st = None
                obs.append({"kind": "raised", "exc": repr(ex)})
        if st is not None:
            inner = sys._current_frames().get(th.ident)
            chain = []
            while inner is not None:
                chain.append(inner)
                inner = inner.f_back
            got = [f.pyframe for f in st.frames]
            if got != chain[::-1] or st.error is not None or w:
                obs.append({"kind": "deep_thread_frames", "got": len(got), "exp": len(chain), "error": repr(st.error),
                            "first": st.frames[0].funcname if st.frames else None,
                            "warnings": [str(x.message)[:100] for x in w]})
            del st, got, chain
    finally:
        # let the thread unwind under the raised limit again: a thread that finds itself far above the limit when it next
        # makes a call is a fatal interpreter error on CPython <= 3.11
        sys.setrecursionlimit(n + 500)
        try:
            ev.set()
            th.join(60)
        finally:
            sys.setrecursionlimit(old)
    return {"obs": obs, "stats": {"depth": n, "managers": 0}}


# ===================================================================================== racing leg

class M:
    def __init__(self, k):
        self.k = k
        self.line = sys._getframe(1).f_lineno

    def __enter__(self):
        return self

    def __exit__(self, *a):
        return False

    def __repr__(self):
        return "M(%d)" % self.k


class XBoom(Exception):
    """raised by a scripted target right after a gate: the frame is left by an exception passing through its blocks"""


class Gate:
    def __init__(self):
        self.go = threading.Semaphore(0)
        self.arrived = threading.Semaphore(0)
        self.pos = None
        self.done = False

    def __call__(self, site):
        self.pos = site
        self.arrived.release()
        self.go.acquire()

    def boom(self, site):
        self(site)
        raise XBoom()

    def advance(self):
        if self.done:
            return False
        self.go.release()
        if not self.arrived.acquire(timeout=60):
            raise RuntimeError("harness: target thread did not reach its next gate")
        return True


FR = []
VALID = {}


def target_a(gate):
    FR.append(sys._getframe())
    gate("a")
    with M(1):
        gate("b")
        with M(2), M(3):
            gate("c")
        for i in range(3):
            with M(10 + i), M(20 + i):
                gate("d")
        gate("e")
    gate("f")


def target_b(gate):
    FR.append(sys._getframe())
    try:
        with M(1):
            gate("a")
            try:
                with M(2):
                    with M(3):
                        gate("b")
                    gate("c")
            finally:
                gate("d")
        for i in range(2):
            with M(10 + i):
                with M(20 + i):
                    gate("e")
                gate("f")
    finally:
        gate("g")


def _gen_c(gate):
    FR.append(sys._getframe())
    with M(1):
        gate("a")
        yield 1
        with M(2):
            gate("b")
            yield 2
        gate("c")
    gate("d")


def target_c(gate):
    # the frame under test belongs to a generator that is running on the target thread
    for _ in _gen_c(gate):
        gate("x")


def _pygate(gate, site):
    gate(site)
    return 0


def target_d(gate):
    # a loop whose two gates sit at different stack depths: a frame that is seen at L, then at M, then at L again has
    # the same f_lasti both times it is at L - whatever was read while it was at M must not be mixed in
    # (at L the frame is inside a C-level call - a callable object - and an observer cannot know its stack depth; at M it
    # is inside a call of a Python function, where the frame records its real depth, temporaries included)
    FR.append(sys._getframe())
    for i in range(5):
        gate("L")
        with M(1):
            x = (M(10 + i), M(20 + i), _pygate(gate, "M"))
        del x


def _gen_e(gate):
    # sibling with blocks at the same nesting level in a generator that the target thread iterates: the block stack at
    # one yield and the value stack at the other do not belong together
    FR.append(sys._getframe())
    for _i in range(3):
        with M(1):
            gate("a")
            yield 1
        with M(2):
            gate("b")
            yield 2


def target_e(gate):
    for _ in _gen_e(gate):
        gate("x")


TARGETS = {"a": target_a, "b": target_b, "c": target_c, "d": target_d, "e": target_e}
GEN_CHAINS = {"e": [(1,), (2,)]}


def make_script(ir):
    """Render a generated racing script (with / for / try-finally over gates) to a function; returns its name.
    Every with item gets its own manager number; the chains of items enclosing each gate are recorded."""
    import json as _json
    key = "gen:" + _json.dumps(ir, sort_keys=True)
    if key in TARGETS:
        return key
    lines = ["def target(gate):", "    FR.append(sys._getframe())"]
    chains = [()]
    ctr = {"m": 0, "g": 0}

    def block(stmts, ind, enclosing):
        if not stmts:
            lines.append("    " * ind + "pass")
        for st in stmts:
            t = st["t"]
            if t in ("gate", "xgate"):
                ctr["g"] += 1
                # (xgate: the exception comes out of the very call the frame is blocked in, so the frame's f_lasti is the
                # same before and - restored by RERAISE on the way out of its with / finally blocks - after it has left)
                lines.append("    " * ind + ("gate('g%d')" if t == "gate" else "gate.boom('g%d')") % ctr["g"])
                chains.append(tuple(enclosing))
            elif t == "with":
                ks = []
                for _ in range(st["n"]):
                    ctr["m"] += 1
                    ks.append(ctr["m"])
                lines.append("    " * ind + "with " + ", ".join("M(%d)" % k for k in ks) + ":")
                # while the items are being entered one by one, every prefix is a real state
                for i in range(1, len(ks)):
                    chains.append(tuple(enclosing) + tuple(ks[:i]))
                block(st["body"], ind + 1, list(enclosing) + ks)
            elif t == "for":
                lines.append("    " * ind + "for _i in range(2):")
                block(st["body"], ind + 1, enclosing)
            elif t == "try":
                lines.append("    " * ind + "try:")
                block(st["body"], ind + 1, enclosing)
                lines.append("    " * ind + "finally:")
                block(st["final"], ind + 1, enclosing)
            else:
                raise AssertionError(t)

    block(ir, 1, [])
    lines.append("    gate('end')")
    src = "\n".join(lines) + "\n"
    ns = {"FR": FR, "sys": sys, "M": M, "XBoom": XBoom}
    exec(compile(src, "<c07-script>", "exec"), ns)
    TARGETS[key] = ns["target"]
    GEN_CHAINS[key] = chains
    return key


def consistent_gen(ctxs, chains):
    ks = []
    for i, c in enumerate(ctxs):
        if c.is_exiting and i == len(ctxs) - 1:
            continue
        m = c.obj
        if not isinstance(m, M):
            return "obj is %r" % (m,)
        if c.start_line != m.line:
            return "context at line %r holds the manager created at line %r" % (c.start_line, m.line)
        ks.append(m.k)
    ks = tuple(ks)
    if not any(ks == ch[:len(ks)] for ch in chains):
        return "not a nesting of with blocks that is ever active at one instruction: %r" % (list(ks),)
    return None


def runner(fn, gate):
    try:
        fn(gate)
    except XBoom:
        # the scripted frame is gone, its thread is not: it stops once more before it finishes
        gate("after_exception")
    gate.done = True
    gate.pos = "done"
    gate.arrived.release()
    gate.go.acquire()


def decoy(gate):
    with M(99):
        gate("decoy")


def start(script, nadv):
    del FR[:]
    g = Gate()
    t = threading.Thread(target=runner, args=(TARGETS[script], g), daemon=True)
    t.start()
    if not g.arrived.acquire(timeout=60):
        raise RuntimeError("harness: target thread did not start")
    for _ in range(nadv):
        g.advance()
    return g, t


def finish(g, t):
    while not g.done:
        g.advance()
    g.go.release()
    t.join(30)


def consistent(ctxs):
    """contexts reported for the scripted frame must be consistent with a single instruction position:
    every manager was created for the line its context names, and the with lines form a nesting that is
    active at one position of the script.  (Managers of *different iterations* of the same loop position are
    accepted: the position is the same - the implementation documents this as fine, and the property asks
    for consistency with a position, not with an instant.  An exiting context may have obj None when its
    callee frame was not part of the frame list.)"""
    lines = []
    norm = []
    for i, c in enumerate(ctxs):
        m = c.obj
        if c.is_exiting and i == len(ctxs) - 1:
            # An exiting entry is not part of the low-level (lasti + value stack) snapshot the property is about:
            # it is computed afterwards from a fresh read of f_lasti, and its obj from the callee frame that was
            # listed earlier still.  For a racing frame it may therefore belong to another instant; not judged.
            continue
        if not isinstance(m, M):
            return "obj is %r" % (m,)
        if c.start_line != m.line:
            return "context at line %r holds the manager created at line %r" % (c.start_line, m.line)
        lines.append(m.line)
        norm.append(m.k if m.k < 10 else (10 if m.k < 20 else 20))
    if lines != sorted(lines):
        return "with lines not in nesting order: %r" % (lines,)
    norm = tuple(norm)
    if not any(norm == ch[:len(norm)] for ch in CHAINS):
        return "not a nesting of with blocks that is ever active at one instruction: %r" % ([getattr(c.obj, "k", None) for c in ctxs],)
    return None


# every chain of with blocks that can be active at a single instruction position of the scripted frames
CHAINS = [(1, 2, 3), (1, 10, 20), (10, 20), (1, 2)]


def snapshot_consistent(script, details):
    """the low-level snapshot itself: every value-stack entry is something the scripted frame puts on its value
    stack (the bound __exit__ of one of its managers, a loop iterator, an empty slot), and the managers form a
    nesting that is active at one instruction position"""
    ks = []
    for obj in details.stack:
        if obj is None or type(obj).__name__ in ("range_iterator", "list_iterator", "tuple_iterator"):
            continue
        if isinstance(obj, types.MethodType) and isinstance(obj.__self__, M) and obj.__func__ is M.__exit__:
            ks.append(obj.__self__.k)
            continue
        if script == "d" and isinstance(obj, M) and obj.k >= 10:
            continue      # that script's temporaries
        if obj is XBoom or isinstance(obj, (XBoom, types.TracebackType, int)):
            # while the frame's finally / with-cleanup code runs for the scripted exception, the interpreter keeps the
            # exception (3.9 / 3.10: type, value, traceback; 3.11+: the exception, the previous one and, for some
            # handlers, the instruction offset) on the value stack
            continue
        return "the snapshot holds an object the frame never had on its value stack: %s" % (repr(obj)[:80],)
    if script in GEN_CHAINS:
        chains, norm = GEN_CHAINS[script], tuple(ks)
    else:
        chains, norm = CHAINS, tuple(k if k < 10 else (10 if k < 20 else 20) for k in ks)
    if not any(norm == ch[:len(norm)] for ch in chains):
        return "the snapshot's managers are not a nesting that is ever active at one instruction: %r" % (ks,)
    return None


def snapshot_signature(details):
    """(blocks, kinds of the value-stack entries): what a snapshot looks like, up to the loop iteration"""
    sig = []
    for obj in details.stack:
        if obj is None:
            sig.append("-")
        elif isinstance(obj, types.MethodType) and isinstance(obj.__self__, M) and obj.__func__ is M.__exit__:
            k = obj.__self__.k
            sig.append("exit%d" % (k if k < 10 else (10 if k < 20 else 20)))
        elif isinstance(obj, M):
            sig.append("M%d" % (10 if obj.k < 20 else 20))
        else:
            sig.append(type(obj).__name__)
    return (tuple((b.handler, b.level) for b in details.blocks), tuple(sig))


def valid_signatures(script, max_adv):
    """the snapshots of the scripted frame taken while its thread is blocked at each of its gates (nobody moves): whenever
    the inspector reads anything in a raced run the target is blocked at one of these gates too, so a snapshot that is
    'consistent with a single instruction position' is one of these"""
    key = (script, max_adv)
    if key not in VALID:
        sigs = set()
        for nadv in range(max_adv + 1):
            g, t = start(script, nadv)
            try:
                if FR and not g.done:
                    try:
                        sigs.add(snapshot_signature(stackscope.lowlevel.inspect_frame(FR[0])))
                    except Exception:
                        pass
            finally:
                if t.is_alive():
                    finish(g, t)
        VALID[key] = sigs
    return VALID[key]


def _consistent_for(script, ctxs):
    if script in GEN_CHAINS:
        return consistent_gen(ctxs, GEN_CHAINS[script])
    return consistent(ctxs)


def one(script, nadv, jstar, k, api, new_thread=False, jstar2=None, k2=0, valid=None):
    import stackscope._verif as V
    g, t = start(script, nadv)
    frame = FR[0] if FR else None
    hooks = []
    extra = {}

    def cb(name, *a):
        if not name.startswith(("inspect_frame:", "unwrap_thread:", "stackslice:")):
            return
        hooks.append(name)
        if jstar2 is not None and len(hooks) - 1 == jstar2:
            # a second move at a later preemption point (the target may be back where it was at the first)
            for _ in range(k2):
                if not g.advance():
                    break
        if len(hooks) - 1 == jstar:
            for _ in range(k):
                if not g.advance():
                    break
            if g.done and new_thread and "decoy" not in extra:
                # the target is finished: let it exit and start another thread (its ident may be reused)
                g.go.release()
                t.join(30)
                dg = Gate()
                dt = threading.Thread(target=decoy, args=(dg,), daemon=True)
                dt.start()
                dg.arrived.acquire(timeout=60)
                extra["decoy"] = (dg, dt)

    V.callback = cb
    out = None
    warned = []
    try:
        with warnings.catch_warnings(record=True) as w:
            warnings.simplefilter("always")
            if api == "ctx":
                res = contexts_active_in_frame(frame)
                out = {"ctxs": res}
            elif api == "inspect":
                try:
                    out = {"ctxs": None, "details": stackscope.lowlevel.inspect_frame(frame)}
                except RuntimeError as ex:
                    out = {"rejected": repr(ex)}
                except AssertionError as ex:
                    out = {"rejected": repr(ex)}
            elif api == "since":
                st = extract_since(frame)
                out = {"stack": st}
            else:
                st = extract(t)
                out = {"stack": st}
        warned = [str(x.message)[:100] for x in w]
    except BaseException as ex:
        out = {"raised": repr(ex)}
    finally:
        V.callback = None
    problem = None
    moved = (len(hooks) > jstar >= 0)
    if "raised" in out:
        problem = "the call raised %s" % out["raised"]
    elif "stack" in out:
        st = out["stack"]
        bad_codes = (decoy.__code__, one.__code__, run_race.__code__)
        for f in st.frames:
            if f.pyframe.f_code in bad_codes:
                problem = "reported a frame that does not belong to the target thread: %s" % f.funcname
        fs = [f for f in st.frames if f.pyframe is frame]
        if fs and problem is None and not warned:
            problem = _consistent_for(script, fs[0].contexts)
        if api == "thread" and st.error is not None and problem is None:
            problem = "Stack.error: %r" % (st.error,)
    elif out.get("ctxs") is not None and not warned:
        problem = _consistent_for(script, out["ctxs"])
    elif out.get("details") is not None:
        problem = snapshot_consistent(script, out["details"])
        if problem is None and valid is not None and not g.done:
            sig = snapshot_signature(out["details"])
            if sig not in valid:
                problem = "the snapshot (blocks %r, stack %r) is not what the frame looks like at any single position" % sig
    if "decoy" in extra:
        dg, dt = extra["decoy"]
        dg.go.release()
        dt.join(30)
    left = g.done
    if t.is_alive():
        finish(g, t)
    return {"hooks": len(hooks), "problem": problem, "warned": bool(warned), "rejected": "rejected" in out,
            "moved": moved, "left_frame": left, "names": sorted(set(hooks))}


def run_race(req):
    from stackscope import _glue
    if _glue._verif_hook.__module__ != "stackscope._verif":
        return {"harness_error": "guarded hooks are not enabled in this worker (STACKSCOPE_VERIF)"}
    obs = []
    stats = {"schedules": 0, "moved": 0, "rejected_or_warned": 0, "left_frame": 0, "new_thread": 0, "hook_points": 0}
    for (script, api, nadv) in req["cells"]:
        if isinstance(script, list):
            script = make_script(script)
        try:
            base = one(script, nadv, -1, 0, api)
        except RuntimeError as ex:
            return {"harness_error": repr(ex)}
        stats["hook_points"] += base["hooks"]
        if base["problem"]:
            obs.append({"kind": "race", "script": script, "api": api, "nadv": nadv, "j": -1, "k": 0,
                        "problem": base["problem"]})
        valid = None
        if api == "inspect" and isinstance(script, str) and not script.startswith("gen:"):
            try:
                valid = valid_signatures(script, 12)
            except RuntimeError as ex:
                return {"harness_error": repr(ex)}
        if req.get("pairs") and api in ("inspect", "ctx"):
            # two moves: k1 gates at the j1-th preemption point, k2 more at the j2-th
            for j1 in range(base["hooks"]):
                for j2 in range(j1 + 1, base["hooks"]):
                    for (k1, k2) in req["pairs"]:
                        try:
                            r = one(script, nadv, j1, k1, api, False, j2, k2, valid)
                        except RuntimeError as ex:
                            return {"harness_error": repr(ex)}
                        stats["schedules"] += 1
                        stats["two_point_schedules"] = stats.get("two_point_schedules", 0) + 1
                        stats["moved"] += 1 if r["moved"] else 0
                        stats["rejected_or_warned"] += 1 if (r["warned"] or r["rejected"]) else 0
                        if r["problem"]:
                            obs.append({"kind": "race", "script": script, "api": api, "nadv": nadv, "j": j1, "k": k1,
                                        "j2": j2, "k2": k2, "problem": r["problem"]})
                            if len(obs) > 4:
                                return {"obs": obs, "stats": stats}
        for jstar in range(base["hooks"]):
            for k in req["ks"]:
                for new_thread in ((False, True) if k == max(req["ks"]) and api == "thread" else (False,)):
                    try:
                        r = one(script, nadv, jstar, k, api, new_thread, valid=valid)
                    except RuntimeError as ex:
                        return {"harness_error": repr(ex)}
                    stats["schedules"] += 1
                    stats["moved"] += 1 if r["moved"] else 0
                    stats["rejected_or_warned"] += 1 if (r["warned"] or r["rejected"]) else 0
                    stats["left_frame"] += 1 if r["left_frame"] else 0
                    stats["new_thread"] += 1 if new_thread else 0
                    if r["problem"]:
                        obs.append({"kind": "race", "script": script, "api": api, "nadv": nadv, "j": jstar, "k": k,
                                    "new_thread": new_thread, "problem": r["problem"]})
                        if len(obs) > 4:
                            return {"obs": obs, "stats": stats}
    return {"obs": obs, "stats": stats}


def run_stress(req):
    """Randomised stress with a tiny switch interval: a smoke test for crashes, not evidence of absence."""
    if req.get("variant") == "exception":
        return run_stress_exception(req)
    if req.get("variant") == "short_lived":
        return run_stress_short_lived(req)
    old = sys.getswitchinterval()
    stop = threading.Event()
    box = {}

    def spin():
        box["frame"] = sys._getframe()
        n = 0
        while not stop.is_set():
            with M(1):
                with M(2), M(3):
                    n += 1
                for i in range(2):
                    with M(10 + i), M(20 + i):
                        n += 1
        box["n"] = n

    def spin_churn():
        # the frame's value-stack slots are taken by short-lived container objects as soon as the with blocks are left:
        # a slot that is read a moment too late holds the address of a freed dict (3.9 / 3.10 keep what was popped)
        box["frame"] = sys._getframe()
        n = 0
        while not stop.is_set():
            with M(1):
                with M(2), M(3):
                    n += 1
            x = (1, 2, {}, {})
            del x
            c = {}
            del c
        box["n"] = n

    t = threading.Thread(target=spin_churn if req.get("variant") == "churn" else spin, daemon=True)
    sys.setswitchinterval(1e-6)
    obs = []
    done = rejected = 0
    try:
        t.start()
        while "frame" not in box:
            pass
        for _ in range(req["iterations"]):
            with warnings.catch_warnings(record=True) as w:
                warnings.simplefilter("always")
                try:
                    st = extract(t)
                except BaseException as ex:
                    obs.append({"kind": "stress_raised", "exc": repr(ex)})
                    break
            done += 1
            if w:
                rejected += 1
                continue
            fs = [f for f in st.frames if f.pyframe is box["frame"]]
            if fs:
                p = consistent(fs[0].contexts)
                if p:
                    obs.append({"kind": "stress_inconsistent", "problem": p})
                    break
    finally:
        stop.set()
        sys.setswitchinterval(old)
        t.join(30)
    return {"obs": obs, "stats": {"stress_extractions": done, "stress_rejected": rejected}}


class StressBoom(Exception):
    pass


def _raiser():
    raise StressBoom


def _victim():
    with M(1):
        with M(2):
            _raiser()          # the frame is left by an exception that passes through both blocks


def run_stress_exception(req):
    """the target's frames keep being left by an exception passing through with blocks (which restores the f_lasti of the
    raising instruction) while they are inspected"""
    old = sys.getswitchinterval()
    stop = threading.Event()

    def spin():
        while not stop.is_set():
            try:
                _victim()
            except StressBoom:
                pass

    t = threading.Thread(target=spin, daemon=True)
    sys.setswitchinterval(1e-6)
    obs = []
    done = rejected = 0
    try:
        t.start()
        for _ in range(req["iterations"]):
            with warnings.catch_warnings(record=True) as w:
                warnings.simplefilter("always")
                try:
                    st = extract(t)
                except BaseException as ex:
                    obs.append({"kind": "stress_raised", "exc": repr(ex)})
                    break
            done += 1
            if w:
                rejected += 1
                continue
            for f in st.frames:
                if f.pyframe.f_code is _victim.__code__:
                    ks = [getattr(c.obj, "k", None) for c in f.contexts if not c.is_exiting]
                    if any(not isinstance(c.obj, M) for c in f.contexts if not c.is_exiting) or ks not in ([], [1], [1, 2]):
                        obs.append({"kind": "stress_inconsistent", "problem": "contexts of the raising frame: %r" % (
                            [repr(c.obj)[:40] for c in f.contexts],)})
            if obs:
                break
    finally:
        stop.set()
        sys.setswitchinterval(old)
        t.join(30)
    return {"obs": obs, "stats": {"stress_extractions": done, "stress_rejected": rejected,
                                  "stress_exception_exit_extractions": done}}


def run_stress_short_lived(req):
    """threads that finish (and whose stacks are freed) while they are being inspected"""
    old = sys.getswitchinterval()
    sys.setswitchinterval(2e-4)
    obs = []
    done = 0

    def work(n):
        with M(1):
            for _ in range(n):
                pass
        return n

    try:
        for i in range(req["iterations"]):
            t = threading.Thread(target=work, args=(500 + (i % 50) * 200,))
            t.start()
            with warnings.catch_warnings(record=True):
                warnings.simplefilter("always")
                try:
                    extract(t)
                except BaseException as ex:
                    obs.append({"kind": "stress_raised", "exc": repr(ex)})
            t.join(30)
            done += 1
            if obs:
                break
    finally:
        sys.setswitchinterval(old)
    return {"obs": obs, "stats": {"stress_extractions": done, "stress_short_lived_threads": done}}


def run_finished_foreign(req):
    """a thread that was not started through threading.Thread (its Thread object is the dummy that current_thread() hands
    out inside it) has FINISHED, and the system has given its ident to a new, unrelated thread: no frames"""
    import _thread
    import time
    box, done = [], threading.Event()

    def foreign_body():
        box.append(threading.current_thread())
        done.set()

    _thread.start_new_thread(foreign_body, ())
    if not done.wait(30):
        return {"harness_error": "foreign thread did not run"}
    old = box[0]
    for _ in range(200):
        if old.ident not in sys._current_frames():
            break
        time.sleep(0.005)
    obs = []
    st0 = extract(old)
    if st0.frames:
        obs.append({"kind": "finished_thread_has_frames", "frames": [f.funcname for f in st0.frames]})
    release = threading.Event()

    def unrelated_work():
        release.wait(60)

    others, reused = [], None
    try:
        for _ in range(req.get("tries", 60)):
            th = threading.Thread(target=unrelated_work, daemon=True)
            th.start()
            others.append(th)
            if th.ident == old.ident:
                reused = th
                break
        if reused is not None:
            for _ in range(200):
                fr = sys._current_frames().get(reused.ident)
                if fr is not None and any(f.f_code is unrelated_work.__code__ for f in _walk(fr)):
                    break
                time.sleep(0.005)
            st = extract(old)
            if st.frames:
                obs.append({"kind": "finished_foreign_thread_reports_the_frames_of_the_thread_that_got_its_ident",
                            "frames": [f.funcname for f in st.frames][:8]})
            # ... while the new owner of the ident is what it is
            st2 = extract(reused)
            if not any(f.pyframe.f_code is unrelated_work.__code__ for f in st2.frames):
                obs.append({"kind": "live_thread_lost_its_frames", "frames": [f.funcname for f in st2.frames][:8]})
    finally:
        release.set()
        for th in others:
            th.join(30)
    return {"obs": obs, "stats": {"ident_reused": 1 if reused is not None else 0, "threads_started": len(others)}}


def _walk(fr):
    while fr is not None:
        yield fr
        fr = fr.f_back


def handle(req):
    if req["op"] == "threads.finished_foreign":
        return run_finished_foreign(req)
    if req["op"] == "threads.deep":
        return run_deep(req)
    op = req["op"]
    if op == "threads.blocked":
        return run_blocked(req)
    if op == "threads.race":
        return run_race(req)
    if op == "threads.stress":
        return run_stress(req)
    raise AssertionError(op)
