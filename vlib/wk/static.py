"""Static differential legs over the standard library of the running interpreter (worker side).

static.exits (C01/C02, CPython >= 3.10): for every __exit__/__aexit__ call site the compiler emitted
  (normal-path inlined call sequences, their awaiting positions, and WITH_EXCEPT_START handler sites),
  currently_exiting_context evaluated at that offset must name a block of analyze_with_blocks(code) whose
  start_line is the line the compiler's own line table gives the call (3.10+ attribute the exit call to the
  with line) and whose is_async matches the presence of GET_AWAITABLE.
static.meta (C08, 3.9+): for every code object, the contexts of analyze_with_blocks on one source line, in
  bytecode order, must be whole repetitions of that line's with items (ast), and agree item-wise on
  is_async and varname.
Pure stdlib + stackscope, Python 3.9 syntax.
"""
import ast
import dis
import os
import sys
import sysconfig
import types
import warnings
from types import SimpleNamespace

from stackscope.lowlevel import analyze_with_blocks, currently_exiting_context

PY = sys.version_info[:2]


def stdlib_files():
    stdlib = sysconfig.get_paths()["stdlib"]
    out = []
    for root, dirs, fs in os.walk(stdlib):
        dirs.sort()
        if "site-packages" in root or "/test" in root or "lib2to3" in root or "idlelib" in root or "__pycache__" in root:
            continue
        for fn in sorted(fs):
            if fn.endswith(".py"):
                out.append(os.path.join(root, fn))
    return out


def codes(co):
    yield co
    for c in co.co_consts:
        if isinstance(c, types.CodeType):
            for x in codes(c):
                yield x


def line_of(insns, idx):
    for x in reversed(insns[:idx + 1]):
        if x.starts_line:
            return x.starts_line
    return None


def eval_site(co, offset):
    with warnings.catch_warnings(record=True) as w:
        warnings.simplefilter("always")
        try:
            ec = currently_exiting_context(SimpleNamespace(f_code=co, f_lasti=offset))
        except (AttributeError, TypeError) as ex:
            return "needs_more_than_f_code_f_lasti", repr(ex), None
        except BaseException as ex:
            return "raised", repr(ex), None
    return "ok", ec, [str(x.message)[:120] for x in w]


def exit_sites(co, insns):
    """-> list of (offset to evaluate at, expected is_async, line, kind)"""
    sites = []
    n = len(insns)
    if PY >= (3, 11):
        for idx, i in enumerate(insns):
            if i.opname == "CALL" and i.arg == 2:
                j = idx - 1
                if j >= 0 and insns[j].opname == "PRECALL":
                    j -= 1
                trip = insns[j - 2:j + 1] if j >= 2 else []
                if len(trip) == 3 and all(t.opname == "LOAD_CONST" and t.argval is None for t in trip):
                    line = line_of(insns, idx)
                    nxt = [x for x in insns[idx + 1:idx + 8] if x.opname != "CACHE"]
                    is_async = bool(nxt) and nxt[0].opname == "GET_AWAITABLE" and nxt[0].arg == 2
                    if not is_async:
                        sites.append((i.offset, False, line, "call"))
                    else:
                        # a suspended frame rests on YIELD_VALUE, a running one on SEND (3.12: on its CACHE)
                        for x in insns[idx + 1:idx + 10]:
                            if x.opname == "SEND":
                                sites.append((x.offset, True, line, "send"))
                                if PY >= (3, 12):
                                    sites.append((x.offset + 2, True, line, "send_cache"))
                            if x.opname == "YIELD_VALUE":
                                sites.append((x.offset, True, line, "yield"))
                                break
            elif i.opname == "WITH_EXCEPT_START":
                line = line_of(insns, idx)
                nxt = [x for x in insns[idx + 1:idx + 4] if x.opname != "CACHE"]
                is_async = bool(nxt) and nxt[0].opname == "GET_AWAITABLE" and nxt[0].arg == 2
                if not is_async:
                    sites.append((i.offset, False, line, "handler"))
                else:
                    for x in insns[idx + 1:idx + 10]:
                        if x.opname == "YIELD_VALUE":
                            sites.append((x.offset, True, line, "handler_yield"))
                            break
    else:  # 3.10
        for idx, i in enumerate(insns):
            if (i.opname == "CALL_FUNCTION" and i.arg == 3 and idx >= 3
                    and [x.opname for x in insns[idx - 3:idx]] == ["LOAD_CONST", "DUP_TOP", "DUP_TOP"]
                    and insns[idx - 3].argval is None):
                line = line_of(insns, idx)
                is_async = idx + 1 < n and insns[idx + 1].opname == "GET_AWAITABLE"
                if not is_async:
                    sites.append((i.offset, False, line, "call"))
                else:
                    sites.append((insns[idx + 2].offset, True, line, "load_const_before_yield_from"))
            elif i.opname == "WITH_EXCEPT_START":
                line = line_of(insns, idx)
                is_async = idx + 1 < n and insns[idx + 1].opname == "GET_AWAITABLE"
                if not is_async:
                    sites.append((i.offset, False, line, "handler"))
                else:
                    sites.append((insns[idx + 2].offset, True, line, "handler_await"))
    return sites


def run_exits(req):
    if PY < (3, 10):
        return {"skipped": "3.9 attributes the exit call to the last body line and keeps unreachable exit sequences"}
    files = stdlib_files()[req["index"]::req["nshards"]]
    stats = {"files": 0, "sites": 0, "async_sites": 0, "handler_sites": 0, "code_objects": 0}
    obs = []
    for path in files:
        try:
            top = compile(open(path, "rb").read(), path, "exec")
        except Exception:
            continue
        stats["files"] += 1
        for co in codes(top):
            insns = list(dis.get_instructions(co))
            if not any(i.opname in ("BEFORE_WITH", "BEFORE_ASYNC_WITH", "SETUP_WITH", "SETUP_ASYNC_WITH") for i in insns):
                continue
            stats["code_objects"] += 1
            try:
                blocks = analyze_with_blocks(co)
            except BaseException as ex:
                obs.append({"kind": "analyze_with_blocks_raised", "file": path, "func": co.co_name, "exc": repr(ex)})
                continue
            for offset, is_async, line, kind in exit_sites(co, insns):
                status, ec, w = eval_site(co, offset)
                if status == "needs_more_than_f_code_f_lasti":
                    return {"skipped": "currently_exiting_context needs more of a frame than f_code/f_lasti: %s" % ec}
                stats["sites"] += 1
                if is_async:
                    stats["async_sites"] += 1
                if kind.startswith("handler"):
                    stats["handler_sites"] += 1
                where = {"file": path, "func": co.co_name, "offset": offset, "site": kind, "line": line}
                if status == "raised":
                    obs.append(dict(where, kind="raised", exc=ec))
                elif w:
                    obs.append(dict(where, kind="warning", msg=w[0]))
                elif ec is None:
                    obs.append(dict(where, kind="exit_site_not_recognised"))
                else:
                    ctx = blocks.get(ec.cleanup_offset)
                    if ctx is None:
                        obs.append(dict(where, kind="names_no_with_block", cleanup_offset=ec.cleanup_offset))
                    elif ctx.start_line != line:
                        obs.append(dict(where, kind="names_the_wrong_with_block", got_line=ctx.start_line))
                    elif bool(ec.is_async) != is_async or bool(ctx.is_async) != is_async:
                        obs.append(dict(where, kind="is_async", got=[ec.is_async, ctx.is_async], want=is_async))
                if len(obs) >= 8:
                    return {"obs": obs, "stats": stats}
    return {"obs": obs, "stats": stats}


# ------------------------------------------------------------------------------------ metadata census

def norm(src):
    d = ast.dump(ast.parse(src, mode="eval").body).replace("Store()", "Load()")
    return d.replace("List(", "Tuple(")


def _sl(node):
    sl = node.slice
    if isinstance(sl, getattr(ast, "Index", ())):
        sl = sl.value
    return sl


def supported_expr(e):
    if isinstance(e, ast.Name):
        return True
    if isinstance(e, ast.Attribute):
        return supported_expr(e.value)
    if isinstance(e, ast.Subscript):
        return supported_expr(e.value) and isinstance(_sl(e), (ast.Constant, ast.Name))
    if isinstance(e, ast.Call):
        return supported_expr(e.func) and not e.keywords and all(
            isinstance(a, (ast.Name, ast.Constant)) or supported_expr(a) for a in e.args)
    if isinstance(e, ast.Constant):
        return True
    return False


def supported(t):
    """target forms the property says are always rendered (names, attributes, subscripts by constant or name,
    positional calls, (starred) tuple/list unpacking)"""
    if isinstance(t, ast.Name):
        return True
    if isinstance(t, ast.Attribute):
        return supported_expr(t.value)
    if isinstance(t, ast.Subscript):
        return supported_expr(t.value) and isinstance(_sl(t), (ast.Constant, ast.Name))
    if isinstance(t, (ast.Tuple, ast.List)):
        return all(supported(e) for e in t.elts)
    if isinstance(t, ast.Starred):
        return supported(t.value)
    return False


def with_items_by_line(fnode, is_module):
    out = {}
    kinds = {}

    class V(ast.NodeVisitor):
        def visit_FunctionDef(self, n):
            if n is fnode:
                self.generic_visit(n)
        visit_AsyncFunctionDef = visit_FunctionDef

        def visit_Lambda(self, n):
            pass

        def visit_ClassDef(self, n):
            if n is fnode:
                self.generic_visit(n)

        def visit_With(self, n):
            out.setdefault(n.lineno, []).extend(n.items)
            kinds[n.lineno] = isinstance(n, ast.AsyncWith)
            self.generic_visit(n)
        visit_AsyncWith = visit_With

    V().visit(fnode)
    return out, kinds


def corpus_files():
    d = os.path.join(os.path.dirname(os.path.abspath(__file__)), "static_corpus")
    return sorted(os.path.join(d, f) for f in os.listdir(d) if f.endswith(".py"))


def run_meta(req):
    # (the hand-written corpus goes with every shard)
    files = corpus_files() + stdlib_files()[req["index"]::req["nshards"]]
    stats = {"files": 0, "functions_with_blocks": 0, "contexts": 0, "targets_non_name": 0, "multi_item_lines": 0}
    obs = []
    for path in files:
        try:
            src = open(path, "rb").read()
            tree = ast.parse(src)
            top = compile(src, path, "exec")
            text = src.decode("utf8", "replace")
        except Exception:
            continue
        stats["files"] += 1
        nodes = {}
        for n in ast.walk(tree):
            if isinstance(n, (ast.FunctionDef, ast.AsyncFunctionDef, ast.ClassDef)):
                ln = n.decorator_list[0].lineno if n.decorator_list else n.lineno
                nodes.setdefault((n.name, ln), []).append(n)
                nodes.setdefault((n.name, n.lineno), []).append(n)
        for co in codes(top):
            if co is top:
                node = tree
            else:
                cands = nodes.get((co.co_name, co.co_firstlineno)) or []
                if len(set(map(id, cands))) != 1:
                    continue   # cannot match the code object to one ast node unambiguously
                node = cands[0]
            try:
                blocks = analyze_with_blocks(co)
            except BaseException as ex:
                obs.append({"kind": "analyze_with_blocks_raised", "file": path, "func": co.co_name, "exc": repr(ex)})
                continue
            if not blocks:
                continue
            items, kinds = with_items_by_line(node, co is top)
            stats["functions_with_blocks"] += 1
            byline = {}
            for off in sorted(blocks):
                c_ = blocks[off]
                byline.setdefault(c_.start_line, []).append(c_)
            for line, cs in byline.items():
                where = {"file": path, "func": co.co_name, "line": line}
                its = items.get(line)
                stats["contexts"] += len(cs)
                if not its:
                    obs.append(dict(where, kind="start_line_is_not_a_with_line", n=len(cs)))
                    continue
                if len(its) > 1:
                    stats["multi_item_lines"] += 1
                if len(cs) % len(its) != 0:
                    obs.append(dict(where, kind="contexts_on_line_are_not_whole_repetitions_of_its_items", contexts=len(cs),
                                    items=len(its)))
                    continue
                # bytecode order within one repetition is handler order: innermost item has the smallest
                # handler offset on 3.11+ only by accident; match by item index modulo, trying both orders
                def agree(order):
                    probs = []
                    for i, c in enumerate(order):
                        it = its[i % len(its)]
                        tgt = it.optional_vars
                        if bool(c.is_async) != kinds[line]:
                            probs.append(dict(where, kind="is_async", got=c.is_async))
                        if c.varname is None:
                            if tgt is not None and supported(tgt):
                                probs.append(dict(where, kind="supported_target_dropped", target=ast.dump(tgt)[:80]))
                            continue
                        if tgt is None:
                            probs.append(dict(where, kind="varname_for_item_without_target", got=c.varname))
                            continue
                        if not isinstance(tgt, ast.Name):
                            stats["targets_non_name"] += 1
                        try:
                            seg = ast.get_source_segment(text, tgt)
                            ok = norm(c.varname) == norm(seg)
                        except Exception:
                            ok = False
                            seg = None
                        if not ok:
                            probs.append(dict(where, kind="varname_differs_from_target", got=c.varname, target=seg))
                    return probs
                p1 = agree(cs)
                if p1:
                    rev = []
                    k = len(its)
                    for g in range(0, len(cs), k):
                        rev.extend(reversed(cs[g:g + k]))
                    p2 = agree(rev)
                    if p2:
                        obs.extend(p1[:2])
                if len(obs) >= 8:
                    return {"obs": obs, "stats": stats}
    return {"obs": obs, "stats": stats}


def handle(req):
    op = req["op"]
    if op == "static.exits":
        return run_exits(req)
    if op == "static.meta":
        return run_meta(req)
    raise AssertionError(op)
