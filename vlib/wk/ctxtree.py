"""C09 (worker side): generator-based managers and exit stacks unfold into the exact nested tree.
A tree of manager nodes is built from an IR; the builder records, for every node, the object that was
created and what was registered where.  Pure stdlib + stackscope, Python 3.9 syntax.
"""
import functools
import sys
import types
import warnings
from contextlib import AsyncExitStack, ExitStack, asynccontextmanager, contextmanager

import stackscope
from stackscope import Context, Stack, extract, extract_since


@types.coroutine
def trap(v):
    return (yield v)


class Plain:
    def __init__(self, nid, probe=None, falsy=False):
        self.nid = nid
        self.probe = probe
        self.falsy = falsy

    def __len__(self):     # a manager that is also an (empty) container is falsy
        return 0 if self.falsy else 1

    def __enter__(self):
        return self

    def __exit__(self, *a):
        if self.probe:
            self.probe(self)
        return False

    def exitish(self, *a):   # a bound method that is not called __exit__
        return False

    def __repr__(self):
        hook, self.on_repr = getattr(self, "on_repr", None), None
        if hook is not None:
            hook()     # e.g. registers one more callback on the exit stack that holds this manager
        return "Plain(%s)" % self.nid


def _no_wraps(fn):
    """a decorator that does not bother with functools.wraps: the function it returns is called 'wrapper'"""
    def wrapper(self, *a):
        return fn(self, *a)
    return wrapper


class PlainAlias(Plain):
    """the exit method is an alias of another method: the function behind __exit__ is called 'close'"""

    def close(self, *a):
        return Plain.__exit__(self, *a)

    __exit__ = close


class PlainDeco(Plain):
    __exit__ = _no_wraps(Plain.__exit__)


class APlain:
    def __init__(self, nid, suspend=False, falsy=False):
        self.nid = nid
        self.suspend = suspend
        self.falsy = falsy

    def __len__(self):
        return 0 if self.falsy else 1

    async def __aenter__(self):
        return self

    async def __aexit__(self, *a):
        if self.suspend:
            await trap(["aexit", self.nid])
        return False

    async def aexitish(self, *a):
        return False

    def __repr__(self):
        return "APlain(%s)" % self.nid


class APlainAlias(APlain):
    async def aclose(self, *a):
        return await APlain.__aexit__(self, *a)

    __aexit__ = aclose


def exit_fn(*a):
    return False


async def aexit_fn(*a):
    return False


class CallableObj:
    def __call__(self, *a, **k):
        return None


def cb_fn(*a, **k):
    return None


async def acb_fn(*a, **k):
    return None


class Rec:
    """the builder's record for one node"""

    def __init__(self, node):
        self.node = node
        self.obj = None         # the manager object
        self.gen_frames = []    # for gcm: generator frame(s), outermost first (with its delegate)
        self.opens = []         # Recs of managers opened inside the generator
        self.regs = []          # for stacks: list of (kind, payload Rec or object)
        self.unentered = False  # a generator-based manager that was registered without ever being entered


class Builder:
    def __init__(self, exiting_nid=None, probe=None, allow_repr_mutation=False):
        self.exiting_nid = exiting_nid
        self.probe = probe
        self.recs = {}
        self.allow_repr_mutation = allow_repr_mutation
        self.late_registrations = 0

    def make(self, node):
        r = Rec(node)
        self.recs[node["id"]] = r
        t = node["t"]
        if t == "plain":
            # (the function behind __exit__ / __aexit__ need not be called that: aliases, decorators without wraps - not in the
            # referents analysis, which by its documentation goes by the name)
            variant = node["id"] % 3 if getattr(self, "exit_variants", False) else 0
            if node["async"]:
                cls = [APlain, APlainAlias, APlain][variant]
                r.obj = cls(node["id"], suspend=(node["id"] == self.exiting_nid), falsy=node.get("falsy", False))
            else:
                cls = [Plain, PlainAlias, PlainDeco][variant]
                r.obj = cls(node["id"], probe=self.probe if node["id"] == self.exiting_nid else None,
                            falsy=node.get("falsy", False))
        elif t == "gcm":
            subs = [self.make(n) for n in node["opens"]]
            r.opens = subs
            r.obj = self._gcm(node, r, subs)
        elif t == "stack":
            r.obj = AsyncExitStack() if node["async"] else ExitStack()
            r.pending = node["regs"]
        else:
            raise AssertionError(t)
        return r

    def _gcm(self, node, r, subs):
        is_async = node["async"]
        nsub = len(subs)
        if nsub > 2:
            raise AssertionError("at most 2 managers inside a generator-based node")

        if not is_async:
            def inner_gen():
                r.gen_frames.append(sys._getframe())
                if nsub == 0:
                    yield "v"
                elif nsub == 1:
                    with subs[0].obj:
                        self._fill(subs[0])
                        yield "v"
                else:
                    with subs[0].obj:
                        self._fill(subs[0])
                        with subs[1].obj:
                            self._fill(subs[1])
                            yield "v"

            if node.get("delegate"):
                @contextmanager
                def cm():
                    r.gen_frames.append(sys._getframe())
                    yield from inner_gen()
            else:
                cm = contextmanager(inner_gen)
            return cm()

        @asynccontextmanager
        async def acm():
            r.gen_frames.append(sys._getframe())
            if nsub == 0:
                yield "v"
            elif nsub == 1:
                async with subs[0].obj:
                    await self._afill(subs[0])
                    yield "v"
            else:
                async with subs[0].obj:
                    await self._afill(subs[0])
                    async with subs[1].obj:
                        await self._afill(subs[1])
                        yield "v"
        return acm()

    # ---- populate exit stacks once they have been entered
    def _fill(self, r):
        if r.node["t"] == "stack" and not r.regs:
            for reg in r.pending:
                self._register(r, reg, sync_only=True)

    async def _afill(self, r):
        if r.node["t"] == "stack" and not r.regs:
            for reg in r.pending:
                await self._aregister(r, reg)

    def _register(self, r, reg, sync_only=False):
        st = r.obj
        kind = reg[0]
        if kind in ("enter_context", "push_cm"):
            sub = self.make(reg[1])
            if kind == "enter_context":
                st.enter_context(sub.obj)
            else:
                sub.obj.__enter__()
                st.push(sub.obj)
            self._fill(sub)
            r.regs.append((kind, sub))
            if self.allow_repr_mutation and reg[1].get("repr_registers") and isinstance(sub.obj, Plain):
                # describing this manager (its repr) registers one more callback on the very stack that is being
                # described: the description must be a consistent snapshot taken before that
                def late(st=st):
                    self.late_registrations += 1
                    st.callback(cb_fn, "late")
                sub.obj.on_repr = late
        elif kind == "push_cm_unentered":
            # push(manager) of a generator-based manager that nobody has entered: only its exit is registered; its
            # generator exists but has not started
            sub = self.make(reg[1])
            sub.unentered = True
            st.push(sub.obj)
            r.regs.append(("push_cm", sub))
        elif kind == "push_fn":
            # push(callable that is not a manager): a Python function, a builtin function (its __self__ is a module), a
            # bound method of a builtin object (its __self__ is that object, but it is no __exit__), a partial
            self.npf = getattr(self, "npf", 0) + 1
            fn = [exit_fn, print, "fmt{}".format, functools.partial(exit_fn, 0), exit_fn.__call__][self.npf % 5]
            st.push(fn)
            r.regs.append((kind, fn))
        elif kind == "push_method":
            p = Plain("m")
            st.push(p.exitish)
            r.regs.append((kind, p))
        elif kind == "callback":
            # the registered callable comes in every shape a program registers: plain function, partial, bound method of a
            # builtin object (no Python-level module), callable instance, lambda, function that has lost its module
            self.ncb = getattr(self, "ncb", 0) + 1
            v = self.ncb % 6
            if v == 1:
                # (arguments of every shape: a tuple argument is one argument)
                st.callback(cb_fn, (640, 480), 1, "s", [2], x=(3, 4), y={"k": ()})
                cb = cb_fn
            elif v == 2:
                cb = functools.partial(cb_fn, 0)
                st.callback(cb, 1)
            elif v == 3:
                cb = [1, 2].clear
                st.callback(cb)
            elif v == 4:
                cb = CallableObj()
                st.callback(cb, 5)
            elif v == 5:
                cb = lambda *a: None      # noqa: E731
                st.callback(cb, 6)
            else:
                cb = types.FunctionType(cb_fn.__code__, {}, "orphan")
                cb.__module__ = None
                st.callback(cb, 7)
            r.regs.append((kind, cb))
        else:
            raise AssertionError(kind)

    async def _aregister(self, r, reg):
        st = r.obj
        kind = reg[0]
        if kind in ("enter_context", "push_cm", "push_fn", "push_method", "callback", "push_cm_unentered"):
            return self._register(r, reg)
        if kind == "push_async_exit_cm_unentered":
            sub = self.make(reg[1])
            sub.unentered = True
            st.push_async_exit(sub.obj)
            r.regs.append(("push_async_exit_cm", sub))
            return
        if kind in ("enter_async_context", "push_async_exit_cm"):
            sub = self.make(reg[1])
            if kind == "enter_async_context":
                await st.enter_async_context(sub.obj)
            else:
                await sub.obj.__aenter__()
                st.push_async_exit(sub.obj)
            await self._afill(sub)
            r.regs.append((kind, sub))
        elif kind == "push_async_exit_fn":
            st.push_async_exit(aexit_fn)
            r.regs.append((kind, aexit_fn))
        elif kind == "push_async_exit_method":
            p = APlain("am")
            st.push_async_exit(p.aexitish)
            r.regs.append((kind, p))
        elif kind == "push_async_callback":
            st.push_async_callback(acb_fn, 3)
            r.regs.append((kind, acb_fn))
        else:
            raise AssertionError(kind)


# ------------------------------------------------------------------------------------ oracle

DESC = {
    # (enter_context(cm) and push(cm) leave the very same callback on the stack: push(cm) may be reported as either, but a
    # manager that was entered through the stack was not "pushed" as a bare callable)
    "enter_context": ("enter_context(",),
    "push_cm": ("enter_context(", "push("),
    "push_fn": ("push(",),
    "push_method": ("push(",),
    "callback": ("callback(",),
    "enter_async_context": ("enter_async_context(",),
    "push_async_exit_cm": ("enter_async_context(", "push_async_exit("),
    "push_async_exit_fn": ("push_async_exit(",),
    "push_async_exit_method": ("push_async_exit(",),
    "push_async_callback": ("push_async_callback(",),
}
ASYNC_KINDS = {"enter_async_context", "push_async_exit_cm", "push_async_exit_fn", "push_async_exit_method",
               "push_async_callback"}


def check_ctx(ctx, rec, path, bad, stats, exiting=False):
    """ctx must describe the manager recorded in rec."""
    node = rec.node
    if ctx.obj is not rec.obj:
        bad.append({"kind": "obj", "path": path, "got": repr(ctx.obj)[:60], "exp": repr(rec.obj)[:60]})
        return
    if bool(ctx.is_async) != bool(node["async"]):
        bad.append({"kind": "is_async", "path": path, "got": ctx.is_async})
    t = node["t"]
    stats["nodes"] = stats.get("nodes", 0) + 1
    if t == "plain":
        if ctx.inner_stack is not None or ctx.children:
            bad.append({"kind": "plain_manager_has_substructure", "path": path})
    elif t == "gcm":
        stats["gcm"] = stats.get("gcm", 0) + 1
        if exiting:
            if ctx.inner_stack is not None:
                bad.append({"kind": "inner_stack_present_while_exiting", "path": path})
            return
        ist = ctx.inner_stack
        if ist is None:
            bad.append({"kind": "inner_stack_missing", "path": path})
            return
        if ist.error is not None:
            bad.append({"kind": "inner_stack_error", "path": path, "exc": repr(ist.error)})
        got = [f.pyframe for f in ist.frames]
        if rec.unentered:
            stats["unentered_gcm"] = stats.get("unentered_gcm", 0) + 1
            gen = rec.obj.gen
            own = getattr(gen, "gi_frame", None) or getattr(gen, "ag_frame", None)
            if got != [own] or ist.root is not gen or ist.frames[0].contexts:
                bad.append({"kind": "inner_stack_of_unentered_manager", "path": path,
                            "got": [f.f_code.co_name for f in got]})
            return
        if got != rec.gen_frames:
            bad.append({"kind": "inner_stack_frames", "path": path, "got": [f.f_code.co_name for f in got],
                        "exp": [f.f_code.co_name for f in rec.gen_frames]})
            return
        if ist.root is not rec.obj.gen:
            bad.append({"kind": "inner_stack_root", "path": path})
        inner_frame = ist.frames[-1]
        # the generator's own with blocks: the managers it opened, in order
        ctxs = list(inner_frame.contexts)
        if len(ctxs) != len(rec.opens):
            bad.append({"kind": "generator_frame_contexts", "path": path, "got": len(ctxs), "exp": len(rec.opens)})
            return
        for i, (c, sub) in enumerate(zip(ctxs, rec.opens)):
            check_ctx(c, sub, path + ["opens%d" % i], bad, stats)
    elif t == "stack":
        stats["stacks"] = stats.get("stacks", 0) + 1
        check_stack_children(ctx, rec.regs, path, bad, stats)


def check_stack_children(ctx, regs, path, bad, stats):
    """ctx.children must be exactly one Context per entry of `regs` (the callbacks still registered)."""
    kids = list(ctx.children)
    if len(kids) != len(regs):
        bad.append({"kind": "exit_stack_children_count", "path": path, "got": len(kids), "exp": len(regs),
                    "descs": [getattr(k, "description", None) for k in kids]})
        return
    kinds = set()
    for i, (k, (kind, payload)) in enumerate(zip(kids, regs)):
        kinds.add(kind)
        p = path + ["reg%d:%s" % (i, kind)]
        if not isinstance(k, Context):
            bad.append({"kind": "exit_stack_child_not_a_context", "path": p})
            continue
        if bool(k.is_async) != (kind in ASYNC_KINDS):
            bad.append({"kind": "exit_stack_child_is_async", "path": p, "got": k.is_async})
        d = k.description or ""
        if not any(m in d for m in DESC[kind]):
            bad.append({"kind": "exit_stack_child_description", "path": p, "got": d, "want_one_of": DESC[kind]})
        if isinstance(payload, Rec):
            # description is composed by the glue; obj must be the registered manager, unfolded recursively
            if k.obj is not payload.obj:
                bad.append({"kind": "exit_stack_child_obj", "path": p, "got": repr(k.obj)[:60]})
            else:
                sub_ctx = Context(obj=k.obj, is_async=payload.node["async"], inner_stack=k.inner_stack,
                                  children=k.children)
                check_ctx(sub_ctx, payload, p, bad, stats)
        elif kind in ("push_fn", "push_async_exit_fn"):
            owner = getattr(payload, "__self__", None)
            if k.obj is not payload and not (owner is not None and not isinstance(owner, types.ModuleType) and k.obj is owner):
                bad.append({"kind": "exit_stack_child_obj", "path": p, "got": repr(k.obj)[:60]})
        elif kind in ("push_method", "push_async_exit_method"):
            if k.obj is not payload:
                bad.append({"kind": "exit_stack_child_obj_not_method_instance", "path": p, "got": repr(k.obj)[:60]})
        else:  # callback kinds: a wrapper whose __wrapped__ is the callback
            if getattr(k.obj, "__wrapped__", None) is not payload:
                bad.append({"kind": "exit_stack_child_obj_not_callback_wrapper", "path": p, "got": repr(k.obj)[:60]})
    stats["max_regs"] = max(stats.get("max_regs", 0), len(regs))
    stats["reg_kinds"] = max(stats.get("reg_kinds", 0), len(kinds))


def run_tree(req):
    root = req["root"]
    obs = []
    stats = {}
    b = Builder(allow_repr_mutation=True)
    b.exit_variants = not req.get("referents")
    rr = b.make(root)

    async def holder():
        if root["async"]:
            async with rr.obj:
                await b._afill(rr)
                await trap("body")
        else:
            with rr.obj:
                b._fill(rr)
                await trap("body")

    co = holder()
    try:
        co.send(None)
    except BaseException as ex:
        return {"harness_error": "holder failed to start: %r (root=%r)" % (ex, root)}
    from stackscope.lowlevel import set_trickery_enabled
    if req.get("referents"):
        set_trickery_enabled(False)
    try:
        with warnings.catch_warnings(record=True) as w:
            warnings.simplefilter("always")
            try:
                st = extract(co)
            except BaseException as ex:
                obs.append({"kind": "raised", "exc": repr(ex)})
                st = None
    finally:
        set_trickery_enabled(None)
    for x in w:
        obs.append({"kind": "warning", "msg": str(x.message)[:200]})
    if st is not None:
        if st.error is not None:
            obs.append({"kind": "error", "exc": repr(st.error)})
        f0 = st.frames[0]
        if len(f0.contexts) != 1:
            obs.append({"kind": "holder_contexts", "n": len(f0.contexts)})
        else:
            bad = []
            check_ctx(f0.contexts[0], rr, ["root"], bad, stats)
            obs.extend(bad[:5])
        try:
            str(st)
            st.as_stdlib_summary(show_contexts=True)
        except BaseException as ex:
            obs.append({"kind": "format_raised", "exc": repr(ex)})
        stats["late_registrations"] = b.late_registrations
    # ---- exiting observation: let the body finish; the first async plain manager met on the way out suspends
    try:
        co.close()
    except BaseException:
        pass
    return {"obs": obs[:6], "stats": stats}


def find_path(node, nid, path=()):
    if node["id"] == nid:
        return list(path) + [node]
    subs = []
    if node["t"] == "gcm":
        subs = node["opens"]
    elif node["t"] == "stack":
        subs = [r[1] for r in node["regs"] if len(r) > 1 and isinstance(r[1], dict)]
    for s in subs:
        p = find_path(s, nid, list(path) + [node])
        if p:
            return p
    return None


def run_exiting(req):
    """Observe while the node `exiting` (an async plain manager: suspended in __aexit__; a sync plain manager:
    probed from inside __exit__) is exiting.  Every generator-based ancestor is then exiting too."""
    root = req["root"]
    nid = req["exiting"]
    path = find_path(root, nid)
    if not path:
        return {"harness_error": "exiting node not found"}
    target = path[-1]
    obs = []
    stats = {"exiting": 1}
    box = {}

    def probe(mgr):
        with warnings.catch_warnings(record=True) as w:
            warnings.simplefilter("always")
            box["st"] = extract_since(box["frame"])
        box["w"] = w

    if (req.get("by_exception") and sys.version_info < (3, 10) and not target["async"]
            and any(n["t"] == "gcm" and n.get("delegate") for n in path[:-1])):
        # CPython 3.9's gen.throw() into a generator suspended in `yield from` leaves the delegating frame with
        # f_back = None (fixed in 3.10), so the running chain cannot be walked by anyone from inside __exit__
        return {"obs": [], "stats": {"skipped_cpython39_throw_breaks_f_back": 1}}
    b = Builder(exiting_nid=nid, probe=probe)
    b.exit_variants = not req.get("referents")
    rr = b.make(root)

    async def holder():
        box["frame"] = sys._getframe()
        if root["async"]:
            async with rr.obj:
                await b._afill(rr)
                await trap("body")
        else:
            with rr.obj:
                b._fill(rr)
                await trap("body")

    class BodyFailed(Exception):
        pass

    co = holder()
    try:
        co.send(None)
        v = None
        try:
            if req.get("by_exception"):
                # the body raises: the managers exit on the exception path (generator-based ones are driven by
                # throw() / athrow() instead of next() / asend())
                stats["by_exception"] = 1
                v = co.throw(BodyFailed("body"))
            else:
                v = co.send(None)   # leave the body: managers exit innermost first
        except (StopIteration, BodyFailed):
            pass
    except BaseException as ex:
        return {"harness_error": "holder failed: %r" % (ex,)}
    if target["async"]:
        if v != ["aexit", nid]:
            return {"harness_error": "did not suspend in the chosen __aexit__: %r" % (v,)}
        with warnings.catch_warnings(record=True) as w:
            warnings.simplefilter("always")
            st = extract(co)
    else:
        st, w = box.get("st"), box.get("w", [])
        if st is None:
            return {"harness_error": "the chosen __exit__ was not reached"}
    for x in w:
        obs.append({"kind": "warning", "msg": str(x.message)[:200]})
    if st.error is not None:
        obs.append({"kind": "error", "exc": repr(st.error)})
    f0 = st.frames[0]
    if not f0.contexts or not f0.contexts[-1].is_exiting or f0.contexts[-1].obj is not rr.obj:
        obs.append({"kind": "root_context_not_exiting", "contexts": [[repr(c.obj)[:40], c.is_exiting] for c in f0.contexts]})
    elif root["t"] == "gcm" and f0.contexts[-1].inner_stack is not None:
        obs.append({"kind": "inner_stack_present_while_exiting"})
    # generator frames of the generator-based ancestors appear in the main series, in order
    main = [f.pyframe for f in st.frames]
    pos = 0
    for n in path[:-1]:
        if n["t"] != "gcm":
            continue
        stats["gcm_exiting"] = stats.get("gcm_exiting", 0) + 1
        for gf in b.recs[n["id"]].gen_frames:
            try:
                pos = main.index(gf, pos) + 1
            except ValueError:
                obs.append({"kind": "exiting_generator_frame_not_in_main_series", "node": n["id"],
                            "frames": [f.funcname for f in st.frames]})
                break
    # an exit stack on the path has popped the entry that is exiting (and everything registered after it); the
    # entries registered BEFORE it are still registered, not exiting, and must be shown fully unfolded
    for parent, child in zip(path[:-1], path[1:]):
        if parent["t"] != "stack":
            continue
        prec = b.recs[parent["id"]]
        ctx = None
        if parent is path[0]:
            ctx = f0.contexts[-1] if f0.contexts else None
        else:
            for f in st.frames:
                for c in f.contexts:
                    if c.obj is prec.obj:
                        ctx = c
        if ctx is None:
            continue   # this stack's own context is not observable from here (it was registered in another stack)
        idx = None
        for i, (kind, payload) in enumerate(prec.regs):
            if isinstance(payload, Rec) and payload.node["id"] == child["id"]:
                idx = i
        if idx is None:
            continue
        stats["exiting_stack_children_checked"] = stats.get("exiting_stack_children_checked", 0) + 1
        bad = []
        check_stack_children(ctx, prec.regs[:idx], ["exiting-stack", parent["id"]], bad, stats)
        obs.extend(bad[:3])
    # the exit method of the chosen node is the innermost harness frame
    names = [f.funcname for f in st.frames]
    want = "__aexit__" if target["async"] else "__exit__"
    if want not in names:
        obs.append({"kind": "exit_frame_missing", "frames": names})
    try:
        if target["async"]:
            co.send(None)
    except StopIteration:
        pass
    except BaseException:
        pass
    try:
        co.close()
    except BaseException:
        pass
    return {"obs": obs[:6], "stats": stats}


# ------------------------------------------------------------------------------------ C19 on real stacks

def projection(stack, sc, sh, out):
    """Reference projection of a real Stack to (kind, filename, lineno, funcname) entries, written from the
    documentation of as_stdlib_summary / as_stdlib_summary_with_contexts."""
    for f in stack.frames:
        if f.hide and not sh:
            continue
        if sc:
            for c in f.contexts:
                _proj_ctx(c, f, sh, out)
            # (the entry of a context that is being exited stands for the frame's own line - when that entry is shown)
            last = f.contexts[-1] if f.contexts else None
            if not (last is not None and last.is_exiting and (sh or not last.hide)):
                out.append(("frame", f.filename, f.lineno, f.funcname))
        else:
            out.append(("frame", f.filename, f.lineno, f.funcname))


def _proj_ctx(c, parent, sh, out):
    if c.hide and not sh:
        return
    out.append(("ctx", parent.filename, c.start_line or parent.lineno, parent.funcname))
    if c.inner_stack is not None:
        projection(c.inner_stack, True, sh, out)
    for ch in c.children:
        if isinstance(ch, Context):
            _proj_ctx(ch, parent, sh, out)


def run_summary(req):
    """C19 on a real extraction: the stdlib summary of extract(holder) for a generated manager tree."""
    import pickle
    import traceback as tbmod
    root = req["root"]
    obs = []
    ex_nid = req.get("exiting")
    ex_path = find_path(root, ex_nid) if ex_nid is not None else None
    if ex_path and not ex_path[-1]["async"]:
        ex_path = None      # only an async manager can be observed suspended in its exit
    b = Builder(exiting_nid=ex_nid if ex_path else None)
    rr = b.make(root)

    async def holder():
        __tracebackhide__ = req.get("hide_holder", False)  # noqa: F841
        if root["async"]:
            async with rr.obj:
                await b._afill(rr)
                await trap("body")
        else:
            with rr.obj:
                b._fill(rr)
                await trap("body")

    co = holder()
    try:
        co.send(None)
        if ex_path:
            if co.send(None) != ["aexit", ex_nid]:
                return {"harness_error": "summary leg: did not suspend in the chosen __aexit__"}
    except BaseException as ex:
        return {"harness_error": "holder failed to start: %r" % (ex,)}
    st = extract(co)
    # hide some elements the way hooks would, so that hidden flags inside contexts occur
    marks = req.get("hide_marks", [])
    allctx = []

    def collect(stack):
        for f in stack.frames:
            for c in f.contexts:
                cc(c)

    def cc(c):
        allctx.append(c)
        if c.inner_stack is not None:
            for f in c.inner_stack.frames:
                allctx.append(f)
            collect(c.inner_stack)
        for ch in c.children:
            if isinstance(ch, Context):
                cc(ch)
    collect(st)
    for m in marks:
        if allctx:
            allctx[m % len(allctx)].hide = True
    stats = {"elements": len(allctx), "hidden": len(marks) if allctx else 0, "combos": 0, "exiting": 1 if ex_path else 0}
    for sc in (False, True):
        for sh in (False, True):
            for cl in (False, True):
                stats["combos"] += 1
                try:
                    s = st.as_stdlib_summary(show_contexts=sc, show_hidden_frames=sh, capture_locals=cl)
                except BaseException as ex:
                    obs.append({"kind": "summary_raised", "opts": [sc, sh, cl], "exc": repr(ex)})
                    continue
                exp = []
                projection(st, sc, sh, exp)
                got = [(fs.filename, fs.lineno, fs.name) for fs in s]
                ok = len(got) == len(exp) and all(
                    g[0] == e[1] and g[1] == e[2] and (g[2] == e[3] if e[0] == "frame" else g[2].startswith(e[3]))
                    for g, e in zip(got, exp))
                if not ok:
                    obs.append({"kind": "summary_differs_from_projection", "opts": [sc, sh, cl], "got": got[:12],
                                "exp": [e[1:] for e in exp][:12]})
                if any((fs.locals is not None) != cl for fs in s):
                    obs.append({"kind": "capture_locals", "opts": [sc, sh, cl]})
                try:
                    if list(pickle.loads(pickle.dumps(s))) != list(s):
                        obs.append({"kind": "pickle_round_trip", "opts": [sc, sh, cl]})
                except BaseException as ex:
                    obs.append({"kind": "pickle_failed", "opts": [sc, sh, cl], "exc": repr(ex)})
                if not isinstance(s, tbmod.StackSummary):
                    obs.append({"kind": "not_a_StackSummary"})
        flat = st.format_flat(show_contexts=sc)
        body = st.as_stdlib_summary(show_contexts=sc).format() if st.frames else []
        if flat[1:1 + len(body)] != body or not flat[0].startswith("stackscope.Stack"):
            obs.append({"kind": "format_flat_is_not_header_plus_summary", "show_contexts": sc})
    try:
        if ex_path:
            co.send(None)
    except BaseException:
        pass
    try:
        co.close()
    except BaseException:
        pass
    return {"obs": obs[:5], "stats": stats}


class BadReprMgr(Plain):
    def __repr__(self):
        raise ValueError("this manager cannot be described")


class HookFailure(Exception):
    pass


class BadReprHooked(BadReprMgr):
    """cannot be described AND its elaborate_context hook fails: two failures for one registration, both to be reported"""


@stackscope.elaborate_context.register(BadReprHooked)
def _elab_bad_repr_hooked(mgr, context):
    raise HookFailure("hook for the undescribable manager fails as well")


class KeyErrCallable:
    def __init__(self):
        self._data = {}

    def __call__(self, *a):
        return False

    def __getattr__(self, name):
        return self._data[name]

    def __repr__(self):
        return "KeyErrCallable()"


def run_badchild(req):
    """an exit stack one of whose registrations cannot be described (its manager's repr raises; a callback argument's repr
    raises): the failure is reported, and every registration - also those made AFTER the failing one - still has its child"""
    obs = []
    regs = []

    async def holder():
        with ExitStack() as st:
            for i, kind in enumerate(req["kinds"]):
                if kind == "plain":
                    m = Plain(i)
                    st.enter_context(m)
                elif kind == "badrepr":
                    m = BadReprMgr(i)
                    st.enter_context(m)
                elif kind == "badrepr_hook":
                    m = BadReprHooked(i)
                    st.enter_context(m)
                elif kind == "badattr":
                    # a callable pushed as an exit function whose attribute lookups fail with something else than
                    # AttributeError (a dict-backed proxy)
                    m = KeyErrCallable()
                    st.push(m)
                elif kind == "badarg":
                    m = cb_fn
                    st.callback(cb_fn, BadReprMgr(i))
                else:
                    m = cb_fn
                    st.callback(cb_fn, i)
                regs.append((kind, m))
            await trap("body")

    co = holder()
    co.send(None)
    try:
        st = extract(co)
    except BaseException as ex:
        return {"obs": [{"kind": "raised", "exc": repr(ex)}], "stats": {}}
    finally:
        pass
    ctx = st.frames[0].contexts[0] if st.frames and st.frames[0].contexts else None
    nbad = sum(1 for k, _m in regs if k.startswith("bad"))
    if ctx is None or len(ctx.children) != len(regs):
        obs.append({"kind": "exit_stack_children_count", "got": None if ctx is None else len(ctx.children), "exp": len(regs),
                    "kinds": req["kinds"], "error": repr(st.error)[:200]})
    else:
        for c, (kind, m) in zip(ctx.children, regs):
            if kind in ("plain", "badrepr") and c.obj is not m:
                obs.append({"kind": "exit_stack_child_obj", "got": type(c.obj).__name__})
    if nbad and st.error is None:
        obs.append({"kind": "description_failure_reported_nowhere"})
    if any(k == "badrepr_hook" for k, _m in regs):
        def leaves(e):
            if hasattr(e, "exceptions"):
                for sub in e.exceptions:
                    for x in leaves(sub):
                        yield x
            elif e is not None:
                yield e
        got = [type(e).__name__ for e in leaves(st.error)]
        want = sum(1 for k, _m in regs if k == "badrepr_hook")
        if got.count("HookFailure") != want:
            obs.append({"kind": "hook_failure_not_retrievable_from_the_error", "errors": got, "hook_failures_expected": want})
    if not nbad and st.error is not None:
        obs.append({"kind": "error", "exc": repr(st.error)})
    try:
        str(st)
    except BaseException as ex:
        obs.append({"kind": "format_raised", "exc": repr(ex)})
    if req.get("summary"):
        # the flat projection of that same Stack: the holder's frame with the exit stack's entry, one entry per
        # registration (described or not), and the frame's own entry
        for sh in (False, True):
            try:
                summ = list(st.as_stdlib_summary(show_contexts=True, show_hidden_frames=sh))
                flat = st.format_flat(show_contexts=True)
            except BaseException as ex:
                obs.append({"kind": "summary_raised_for_a_stack_that_extract_returned", "exc": repr(ex)[:200], "kinds": req["kinds"]})
                break
            mine = [fs for fs in summ if fs.name.split(" ")[0] == "holder"]
            if len(mine) != len(regs) + 2:
                obs.append({"kind": "summary_entries", "got": [fs.name for fs in mine], "exp": len(regs) + 2})
            if any(not ln.endswith("\n") for ln in flat):
                obs.append({"kind": "format_flat_line_not_terminated"})
    co.close()
    return {"obs": obs, "stats": {"regs": len(regs)}}


class SelfPushingStack(ExitStack):
    """an exit stack that registers methods of ITSELF (roll back on error, log the outcome): an everyday idiom"""

    def __init__(self, n):
        super().__init__()
        self.n = n

    def __enter__(self):
        super().__enter__()
        for i in range(self.n):
            self.push(self._rollback_on_error if i % 2 == 0 else self._log_outcome)
        return self

    def _rollback_on_error(self, *exc):
        return False

    def _log_outcome(self, *exc):
        return False


def run_selfstack(req):
    """no hang, no error; one child per registration, none of them unfolding the stack again"""
    import threading
    n = req["n"]
    box = {}

    async def holder():
        with SelfPushingStack(n) as st:
            st.callback(cb_fn, 1)
            await trap("body")

    co = holder()
    co.send(None)

    def work():
        try:
            box["st"] = extract(co)
        except BaseException as ex:
            box["raised"] = repr(ex)

    th = threading.Thread(target=work, daemon=True)
    th.start()
    th.join(req.get("patience", 30))
    if th.is_alive():
        return {"corrupted": "extract() of a frame holding an exit stack that registered %d of its own methods did not return "
                             "within %d s" % (n, req.get("patience", 30))}
    obs = []
    if "raised" in box:
        return {"obs": [{"kind": "raised", "exc": box["raised"]}], "stats": {}}
    st = box["st"]
    ctx = st.frames[0].contexts[0] if st.frames and st.frames[0].contexts else None
    if st.error is not None:
        obs.append({"kind": "error", "exc": repr(st.error)[:200]})
    if ctx is None or len(ctx.children) != n + 1:
        obs.append({"kind": "exit_stack_children_count", "got": None if ctx is None else len(ctx.children), "exp": n + 1})
    else:
        depth = 0
        c = ctx
        while c.children and depth < 50:
            c = c.children[0]
            depth += 1
        if depth > 2:
            obs.append({"kind": "exit_stack_unfolded_inside_itself", "depth": depth})
    try:
        str(st)
    except BaseException as ex:
        obs.append({"kind": "format_raised", "exc": repr(ex)})
    co.close()
    return {"obs": obs, "stats": {"regs": n + 1}}


def handle(req):
    if req["op"] == "ctxtree.selfstack":
        return run_selfstack(req)
    if req["op"] == "ctxtree.badchild":
        return run_badchild(req)
    op = req["op"]
    if op == "ctxtree.summary":
        return run_summary(req)
    if op == "ctxtree.tree":
        return run_tree(req)
    if op == "ctxtree.exiting":
        return run_exiting(req)
    raise AssertionError(op)
