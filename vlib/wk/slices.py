"""C04 (worker side): running-stack extraction and StackSlice slicing equal slices of the true stack.
A plan string drives a recursive helper that records every frame it creates (shadow list); at the innermost
level the full cross product of (outer, inner, limit) is compared with slices of the shadow.
Pure stdlib + stackscope (+ greenlet when installed), Python 3.9 syntax.
"""
import sys

import stackscope
from stackscope import StackSlice, extract, extract_since, extract_until

try:
    import greenlet
except ImportError:
    greenlet = None

SH = []   # shadow frames, outermost first


class BareNamespace:
    """the least a class-body namespace has to offer: item access"""

    def __init__(self):
        self.d = {}

    def __getitem__(self, k):
        return self.d[k]

    def __setitem__(self, k, v):
        self.d[k] = v

    def __delitem__(self, k):
        del self.d[k]


class BareMeta(type):
    @classmethod
    def __prepare__(mcls, name, bases, **kw):
        return BareNamespace()

    def __new__(mcls, name, bases, ns, **kw):
        return type.__new__(mcls, name, bases, dict(ns.d))


def level(plan, i, action):
    SH.append(sys._getframe())
    try:
        if i == len(plan):
            return action()
        kind = plan[i]
        if kind == "f":
            return level(plan, i + 1, action)
        if kind == "g":   # a running generator frame in between
            def gen():
                SH.append(sys._getframe())
                try:
                    yield level(plan, i + 1, action)
                finally:
                    SH.pop()
            return next(gen())
        if kind == "c":   # a running coroutine frame in between
            async def co():
                SH.append(sys._getframe())
                try:
                    return level(plan, i + 1, action)
                finally:
                    SH.pop()
            try:
                co().send(None)
            except StopIteration as si:
                return si.value
        if kind == "k":   # a class body in between, executing in a namespace object that is no dict (metaclass __prepare__)
            box = {}

            class Body(metaclass=BareMeta):
                SH.append(sys._getframe())
                try:
                    box["r"] = level(plan, i + 1, action)
                finally:
                    SH.pop()
            return box["r"]
        if kind == "G":   # continue in a new greenlet (its parent is the current one)
            gr = greenlet.greenlet(level)
            return gr.switch(plan, i + 1, action)
        if kind == "D":   # continue in a greenlet whose parent has already finished (dead parent)
            box = {}

            def a_body():
                box["B"] = greenlet.greenlet(level)   # parent = the greenlet running a_body
                return None
            a = greenlet.greenlet(a_body)
            a.switch()                                # a_body returns: its greenlet is dead, B not started yet
            return box["B"].switch(plan, i + 1, action)
        raise AssertionError(kind)
    finally:
        SH.pop()


def pf(st):
    return [f.pyframe for f in st.frames]


def check_all():
    truth = list(SH) + [sys._getframe()]
    n = len(truth)
    bad = []
    stats = {"slices": 0, "until_frame": 0, "all_three_set": 0}
    st = extract_since(None)
    full = pf(st)
    if st.error is not None:
        bad.append(["full_error", repr(st.error)])
    if full[-n:] != truth:
        bad.append(["extract_since(None) does not end with the true stack", len(full), n])
        return bad, stats
    if any((f.f_globals.get("__name__") or "").startswith("stackscope.") and
           not (f.f_globals.get("__name__") or "").startswith("stackscope._tests") for f in full):
        bad.append(["stackscope's own frames are included"])
    st2 = extract(StackSlice())
    if pf(st2) != full:
        bad.append(["extract(StackSlice()) differs from extract_since(None)"])
    allf = full
    N = len(allf)
    stats["depth"] = N
    for oi in [None] + list(range(N)):
        for ii in [None] + list(range(N)):
            if oi is not None and ii is not None and oi > ii:
                continue
            for lim in [None] + list(range(1, N + 2)):
                o = allf[oi] if oi is not None else None
                i = allf[ii] if ii is not None else None
                # both spellings of the constructor: keywords, and positionally in the documented order (outer, inner, limit)
                if stats["slices"] % 2:
                    spec = StackSlice(o, i, lim) if lim is not None else (StackSlice(o, i) if i is not None else StackSlice(o))
                else:
                    spec = StackSlice(outer=o, inner=i, limit=lim)
                st = extract(spec, with_contexts=False)
                stats["slices"] += 1
                if oi is not None and ii is not None and lim is not None:
                    stats["all_three_set"] += 1
                lo = oi if oi is not None else 0
                hi = ii if ii is not None else N - 1
                exp = allf[lo:hi + 1]
                if lim is not None and len(exp) > lim:
                    if i is None and o is not None:
                        exp = exp[:lim]      # only outer given: keep the frames nearest outer
                    else:
                        exp = exp[-lim:]     # otherwise keep the frames nearest inner / the caller
                if pf(st) != exp or st.error is not None:
                    bad.append(["slice", oi, ii, lim, len(pf(st)), len(exp), repr(st.error)])
                    if len(bad) > 5:
                        return bad, stats
    # the convenience wrappers
    for oi in range(N):
        st = extract_since(allf[oi], with_contexts=False)
        if pf(st) != allf[oi:] or st.error is not None:
            bad.append(["extract_since", oi])
    for ii in range(N):
        st = extract_until(allf[ii], with_contexts=False)
        if pf(st) != allf[:ii + 1] or st.error is not None:
            bad.append(["extract_until", ii])
        for lim in range(1, N + 2):
            st = extract_until(allf[ii], limit=lim, with_contexts=False)
            if pf(st) != allf[:ii + 1][-lim:] or st.error is not None:
                bad.append(["extract_until_int", ii, lim])
        for li in range(ii + 1):
            cur = allf[ii]
            reach = False
            while cur is not None:
                if cur is allf[li]:
                    reach = True
                    break
                cur = cur.f_back
            if not reach:
                continue   # frame-valued limits are restricted to frames reachable by f_back
            stats["until_frame"] += 1
            st = extract_until(allf[ii], limit=allf[li], with_contexts=False)
            if pf(st) != allf[li:ii + 1] or st.error is not None:
                bad.append(["extract_until_frame", ii, li])
    return bad, stats


# The module the calling code lives in is part of the input: stackscope recognises its own frames by module name, and
# a caller's module may be called anything (also something that merely starts with the same letters).
# (the last one: a module whose globals have no usable __name__ - code run through exec() with a namespace of its own)
MODNAMES = [None, "stackscope_helpers", "stackscopic.inner", "my.stackscope", "stackscope_tests_support", "!noname"]
_CLONES = {}


def clone(name):
    """this very module loaded a second time under another __name__ (its functions' frames then belong to it)"""
    mod = _CLONES.get(name)
    if mod is None:
        import importlib.util
        spec = importlib.util.spec_from_file_location("c04_noname" if name == "!noname" else name, __file__)
        mod = importlib.util.module_from_spec(spec)
        spec.loader.exec_module(mod)
        if name == "!noname":
            mod.__dict__["__name__"] = None
        _CLONES[name] = mod
    return mod


def run_plan(req):
    plan = req["plan"]
    if plan[:1] == "~":
        name = MODNAMES[int(plan[1])]
        return clone(name).run_plan(dict(req, plan=plan[2:]))
    if ("G" in plan or "D" in plan) and greenlet is None:
        return {"skipped": "no greenlet"}
    del SH[:]
    try:
        bad, stats = level(plan, 0, check_all)
    except BaseException as ex:
        import traceback
        return {"obs": [{"kind": "raised", "exc": traceback.format_exc()[-800:]}], "stats": {}}
    return {"obs": [{"kind": b[0], "detail": b} for b in bad[:5]], "stats": stats}


def run_hub(req):
    """The calling thread's stack, as stackscope defines it (own greenlet + suspended ancestors), holding MORE frames
    than the recursion limit: a hub greenlet is started while the main greenlet is shallow and parks; the main greenlet
    then recurses deep and switches to the hub, which starts a worker that recurses deep again (event-loop pattern)."""
    if greenlet is None:
        return {"skipped": "no greenlet"}
    n_main, n_worker, limit = req["n_main"], req["n_worker"], req["limit"]
    box = {}

    def deep(n, then):
        if n <= 0:
            return then()
        return deep(n - 1, then)

    def hub_body():
        fn = greenlet.getcurrent().parent.switch("parked")
        fn()

    def at_bottom():
        st = extract_since(None, with_contexts=False)
        got = [f.pyframe for f in st.frames]
        parts = []
        g = greenlet.getcurrent()
        f = sys._getframe()
        while True:
            part = []
            while f is not None:
                part.append(f)
                f = f.f_back
            parts.append(part[::-1])
            g = g.parent
            if g is None:
                break
            f = g.gr_frame
        true = [x for part in reversed(parts) for x in part]
        box["res"] = (len(got), len(true), got == true, repr(st.error)[:200] if st.error is not None else None,
                      got[-1] is true[-1] if got and true else None)
        lim = extract(StackSlice(limit=7), with_contexts=False)
        box["limited"] = [f.pyframe for f in lim.frames] == true[-7:]

    def worker_body():
        deep(n_worker, at_bottom)

    def start_worker():
        greenlet.greenlet(worker_body).switch()

    old = sys.getrecursionlimit()
    hub = greenlet.greenlet(hub_body)
    hub.switch()
    try:
        sys.setrecursionlimit(limit)
        deep(n_main, lambda: hub.switch(start_worker))
    except RecursionError as ex:
        return {"harness_error": "scenario itself overflowed: %r" % (ex,)}
    finally:
        sys.setrecursionlimit(old)
    obs = []
    if "res" not in box:
        return {"harness_error": "the worker greenlet did not run"}
    ngot, ntrue, same, err, ends = box["res"]
    if ntrue <= limit:
        return {"harness_error": "stack of %d frames does not exceed the limit %d" % (ntrue, limit)}
    if not same or err is not None:
        obs.append({"kind": "stack deeper than the recursion limit", "detail": {"got": ngot, "true": ntrue, "error": err,
                                                                                "ends_at_caller": ends}})
    if not box.get("limited"):
        obs.append({"kind": "limit on a stack deeper than the recursion limit", "detail": {}})
    return {"obs": obs, "stats": {"slices": 2, "frames": ntrue}}


def handle(req):
    if req["op"] == "slices.hub":
        return run_hub(req)
    if req["op"] == "slices.plan":
        return run_plan(req)
    raise AssertionError(req["op"])
