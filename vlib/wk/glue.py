"""C17 (worker side): library glue is installed exactly once, in time, module-provided beats built-in.

History leg: a generated sequence of sys.modules insertions / removals / re-insertions interleaved with
extractions, judged by a model.  Schedule leg: several threads enter extract() at once under the
cooperative scheduler, stopping at the guarded yield points inside add_glue_as_needed (needs
STACKSCOPE_VERIF=1).  Pure stdlib + stackscope, Python 3.9 syntax.
"""
import sys
import threading
import types
import warnings

import stackscope
from stackscope import extract
from stackscope import _glue

from vlib.wk.sched import Coop, HarnessTimeout

CASE = [0]


class _Hooked:
    """a stack item whose unwrap hook runs a callback in the middle of an extraction"""

    def __init__(self, fn):
        self.fn = fn


@stackscope.unwrap_stackitem.register(_Hooked)
def _unwrap_hooked(it):
    it.fn()
    return None


class LazyLike(types.ModuleType):
    """stands for importlib.util.LazyLoader's module type: ANY attribute access (its __dict__ included) makes it load"""

    def __getattribute__(self, attr):
        types.ModuleType.__getattribute__(self, "__dict__").setdefault("_touched_", []).append(attr)
        return types.ModuleType.__getattribute__(self, attr)


def make_module(name, kind, log, on_import=None):
    m = LazyLike(name) if kind == "lazy" else types.ModuleType(name)
    if kind in ("mod", "both", "raise", "importer", "bothraise", "bothpresent"):
        def glue(name=name, kind=kind, m=m):
            log.append((name, "module", id(m)))
            if kind in ("raise", "bothraise"):
                raise ValueError("module glue of %s fails" % name)
            if kind == "importer":
                on_import(name)      # the glue imports a helper module that carries glue of its own
        m._stackscope_install_glue_ = glue
    return m


def register_builtin(name, kind, log):
    def big(name=name, kind=kind):
        log.append((name, "builtin", 0))
        if kind == "biraise":
            raise ValueError("builtin glue for %s fails" % name)
    _glue.builtin_glue(name)(big)


def run_history(req):
    CASE[0] += 1
    ops = req["ops"]
    gen = [0, 0, 0, 0]
    used = []
    log = []
    blocked_bi = set()   # names with built-in glue declared whose sys.modules entry is None
    present = {}      # slot -> (name, module or None, kind)
    removed = {}      # slot -> (name, module, kind)
    unrun_mod = set()  # model: ids of module objects whose own glue has not run yet
    bi_pending = set()  # model: names whose built-in glue is registered and neither ran nor was superseded
    obs = []
    known = []
    stats = {"extracts": 0, "removes": 0, "adds": 0, "f4_hits": 0, "raising_glue_runs": 0, "glue_runs": 0,
             "inserted_by_glue": 0, "extract_after_insertion_by_glue": 0, "nested_extractions_after_insertion": 0}
    with warnings.catch_warnings():
        warnings.simplefilter("ignore")
        extract(1)   # make sure the cache reflects the current sys.modules
    last_scan_len = len(sys.modules)

    born = []   # modules inserted by a glue function during the extraction in progress

    def on_import(parent):
        cname = parent + "_helper"
        if cname in sys.modules:
            return
        used.append(cname)
        c = new_module(cname, "mod")
        sys.modules[cname] = c
        present[("helper", cname)] = (cname, c, "mod")
        born.append((cname, "module", id(c)))
        stats["inserted_by_glue"] += 1

    keepalive = []   # (the model identifies module objects by id(): none of them may be freed, and its id reused, meanwhile)

    def new_module(name, kind):
        m = make_module(name, kind, log, on_import)
        keepalive.append(m)
        if kind in ("mod", "both", "raise", "importer", "bothraise", "bothpresent"):
            unrun_mod.add(id(m))
        return m

    try:
        for op in ops:
            t = op[0]
            if t == "add":
                _, slot, kind = op
                if slot in present:
                    continue
                gen[slot] += 1
                name = "vmod_%d_%d_%d" % (CASE[0], slot, gen[slot])   # a fresh name for every generation
                used.append(name)
                removed.pop(slot, None)
                if kind == "nonemod":
                    sys.modules[name] = None
                    present[slot] = (name, None, kind)
                    stats["adds"] += 1
                    continue
                if kind in ("bi", "both", "biraise", "bothraise"):
                    # built-in glue is registered while the module is absent (otherwise it would run at once)
                    register_builtin(name, kind, log)
                    bi_pending.add(name)
                m = new_module(name, kind)
                sys.modules[name] = m
                present[slot] = (name, m, kind)
                stats["adds"] += 1
                if kind == "biraisepresent":
                    # ... and that glue fails: declaring it (which is what `import stackscope` does) must not raise
                    with warnings.catch_warnings(record=True) as wdecl:
                        warnings.simplefilter("always")
                        try:
                            register_builtin(name, "biraise", log)
                        except BaseException as ex:
                            obs.append({"kind": "declaring_builtin_glue_for_a_present_module_raised", "exc": repr(ex)})
                    if (name, "builtin", 0) in log:
                        if not any("Failed to initialize" in str(x.message) for x in wdecl):
                            obs.append({"kind": "warnings_for_failing_glue", "warnings": 0, "failing_glue_runs": 1, "at": "declaration"})
                    else:
                        bi_pending.add(name)
                        present[slot] = (name, m, "biraise")
                if kind in ("bipresent", "bothpresent"):
                    # The module is ALREADY in sys.modules when the built-in glue for it is declared (what happens at
                    # `import stackscope` for every module imported before it).  Without glue of its own the built-in
                    # one is due by the next extraction (it may run at once); with glue of its own that one wins.
                    register_builtin(name, kind, log)
                    stats["builtin_glue_declared_for_a_present_module"] = stats.get("builtin_glue_declared_for_a_present_module", 0) + 1
                    if kind == "bipresent" and (name, "builtin", 0) not in log:
                        bi_pending.add(name)
            elif t == "remove":
                slot = op[1]
                if slot not in present:
                    continue
                removed[slot] = present.pop(slot)
                del sys.modules[removed[slot][0]]
                stats["removes"] += 1
            elif t == "readd":
                slot = op[1]
                if slot in present or slot not in removed:
                    continue
                name, m, kind = removed.pop(slot)
                if op[2] == "newglue" and kind in ("none", "nonemod"):
                    # the name belonged to a module without glue (or to a None entry) that has been scanned or not; the
                    # module object that now appears under the same name does have glue
                    kind = "mod"
                    m = new_module(name, kind)
                    stats["glue_bearing_module_under_a_glueless_name"] = stats.get("glue_bearing_module_under_a_glueless_name", 0) + 1
                elif op[2] in ("new", "newglue") and m is not None:
                    m = new_module(name, kind)
                sys.modules[name] = m
                present[slot] = (name, m, kind)
                stats["adds"] += 1
            elif t == "nested":
                # A module appears in the MIDDLE of an extraction (a hook imports it) and the hook then starts a nested
                # extraction with extract_child(): that one starts after the module appeared, so the module's glue has
                # run by the time it returns.  Made right after a completed extraction, so nothing else is pending.
                slot = op[1]
                if slot in present or not stats["extracts"] or ops[ops.index(op) - 1][0] != "extract":
                    continue
                gen[slot] += 1
                name = "vmod_%d_%d_%d" % (CASE[0], slot, gen[slot])
                used.append(name)
                removed.pop(slot, None)
                box = {}
                before = len(log)
                del born[:]

                def hook(name=name, slot=slot, box=box):
                    m = new_module(name, "mod")
                    sys.modules[name] = m
                    present[slot] = (name, m, "mod")
                    box["len"] = len(sys.modules)
                    stackscope.extract_child(1, for_task=False)
                    box["ran"] = (name, "module", id(m)) in log
                    box["key"] = (name, "module", id(m))
                with warnings.catch_warnings():
                    warnings.simplefilter("ignore")
                    try:
                        extract(_Hooked(hook))
                    except BaseException as ex:
                        obs.append({"kind": "extract_raised", "exc": repr(ex)})
                        break
                stats["nested_extractions_after_insertion"] += 1
                if "ran" not in box:
                    obs.append({"kind": "harness_hook_did_not_run"})
                elif not box["ran"]:
                    obs.append({"kind": "glue_not_run_by_nested_extraction_started_after_the_module_appeared",
                                "module": name, "ran_later": box["key"] in log})
                # whatever else was still pending (an F4-skipped module, say) may have been installed on the way
                for (n, k, i) in log[before:]:
                    if k == "module":
                        unrun_mod.discard(i)
                    bi_pending.discard(n)
                if box.get("key") in log:
                    last_scan_len = box["len"]
            elif t == "extract":
                expect = []
                for slot, (name, m, kind) in present.items():
                    if m is None:
                        continue
                    if id(m) in unrun_mod:
                        expect.append((name, "module", id(m)))
                    elif name in bi_pending:
                        expect.append((name, "builtin", 0))
                fastpath = len(sys.modules) == last_scan_len
                scan_start_len = len(sys.modules)
                if any(k[0] == "helper" and id(v[1]) in unrun_mod for k, v in present.items() if isinstance(k, tuple)):
                    stats["extract_after_insertion_by_glue"] += 1
                del born[:]
                before = len(log)
                with warnings.catch_warnings(record=True) as w:
                    warnings.simplefilter("always")
                    how = op[1] if len(op) > 1 else "extract"
                    try:
                        if how == "outermost":
                            # extract_outermost() is an extraction too; 1 has no frames, so it ends by raising
                            try:
                                stackscope.extract_outermost(1)
                            except RuntimeError:
                                pass
                            st = stackscope.Stack(root=1, frames=[], leaf=1)
                        elif how == "since":
                            st = stackscope.extract_since(sys._getframe(), with_contexts=False)
                            st = stackscope.Stack(root=1, frames=[], leaf=1) if st.error is None and st.frames else st
                        else:
                            st = extract(1)
                    except BaseException as ex:
                        obs.append({"kind": "extract_raised", "exc": repr(ex), "how": how})
                        break
                stats["extracts"] += 1
                got = log[before:]
                stats["glue_runs"] += len(got)
                # a module that appeared DURING this extraction may be handled by it or by the next one
                for key in born:
                    if key in got:
                        got.remove(key)
                        unrun_mod.discard(key[2])
                if st.error is not None or st.frames:
                    obs.append({"kind": "extract_result", "error": repr(st.error)})
                skipped = False
                if sorted(got) != sorted(expect):
                    if fastpath and not got and expect:
                        # F4: the len(sys.modules) fast path skipped the scan although glue is pending
                        stats["f4_hits"] += 1
                        known.append({"expected": sorted(expect)})
                        skipped = True
                    else:
                        obs.append({"kind": "glue_runs_differ_from_model", "expected": sorted(expect), "got": sorted(got),
                                    "fastpath": fastpath})
                if not skipped:
                    for (name, k, i) in expect:
                        if k == "module":
                            unrun_mod.discard(i)
                            bi_pending.discard(name)   # superseded: never both kinds for one module
                        else:
                            bi_pending.discard(name)
                if not (fastpath and not got):
                    last_scan_len = scan_start_len
                nwarn = sum(1 for x in w if issubclass(x.category, RuntimeWarning) and "Failed to initialize" in str(x.message))
                kinds = dict((nm, kd) for (nm, _m, kd) in present.values())
                nraise = 0
                for (n, k, _i) in got:
                    kind = kinds.get(n)
                    if (k == "module" and kind in ("raise", "bothraise")) or (k == "builtin" and kind == "biraise"):
                        nraise += 1
                stats["raising_glue_runs"] += nraise
                if nwarn != nraise:
                    obs.append({"kind": "warnings_for_failing_glue", "warnings": nwarn, "failing_glue_runs": nraise})
                other = [str(x.message)[:100] for x in w if "Failed to initialize" not in str(x.message)]
                if other:
                    obs.append({"kind": "unexpected_warning", "msgs": other})
        # a lazily loading module is not made to load by an extraction
        for slot, (name, m, kind) in list(present.items()) + list(removed.items()):
            if kind == "lazy" and m is not None:
                touched = types.ModuleType.__getattribute__(m, "__dict__").get("_touched_")
                if touched:
                    obs.append({"kind": "lazy_module_made_to_load", "name": name, "attributes_read": touched[:4]})
        # over the whole history: no glue function ran twice; never both kinds for one module
        seen = {}
        for key in log:
            seen[key] = seen.get(key, 0) + 1
        for key, c in seen.items():
            if c > 1:
                obs.append({"kind": "glue_ran_twice", "which": list(key), "times": c})
        ran_module = set(n for (n, k, _i) in log if k == "module")
        for (n, k, _i) in log:
            if k == "builtin" and n in ran_module:
                obs.append({"kind": "both_kinds_ran_for_one_module", "name": n})
    finally:
        for n in used:
            sys.modules.pop(n, None)
            _glue.builtin_glue_pending.pop(n, None)
        with warnings.catch_warnings():
            warnings.simplefilter("ignore")
            extract(1)
    return {"obs": obs, "known": known, "stats": stats}


def run_schedule(req):
    import stackscope._verif as V
    if not getattr(_glue, "_verif_hook", None) or _glue._verif_hook.__module__ != "stackscope._verif":
        return {"harness_error": "guarded hooks are not enabled in this worker (STACKSCOPE_VERIF)"}
    CASE[0] += 1
    nthreads = req["nthreads"]
    names = ["smod_%d_%d" % (CASE[0], i) for i in range(len(req["modules"]))]
    log = []
    obs = []
    with warnings.catch_warnings():
        warnings.simplefilter("ignore")
        extract(1)
    mods = {}
    for name, kind in zip(names, req["modules"]):
        if kind in ("bi", "both", "biraise"):
            register_builtin(name, kind, log)
        m = make_module(name, kind, log)
        sys.modules[name] = m
        mods[name] = (m, kind)
    expect = []
    for name, (m, kind) in mods.items():
        if "_stackscope_install_glue_" in m.__dict__:
            expect.append((name, "module", id(m)))
        elif name in _glue.builtin_glue_pending:
            expect.append((name, "builtin", 0))
    coop = Coop(nthreads, lock_points=("glue:locked", "glue:before_call"), lock_entry_points=("glue:after_fastpath",))
    V.callback = lambda name, *a: coop.point(name) if name.startswith("glue:") else None
    results = [None] * nthreads
    done_log_len = [None] * nthreads
    errs = []
    passed_fastpath_while_scanning = [0]

    def on_step(c, i):
        if c.where[i] == "glue:after_fastpath" and c.holder is not None and c.holder != i:
            passed_fastpath_while_scanning[0] += 1

    def main(i):
        coop.attach(i)
        try:
            coop.point("start")
            with warnings.catch_warnings():
                warnings.simplefilter("ignore")
                st = extract(1)
            done_log_len[i] = len(log)
            results[i] = "ok" if (st.error is None and not st.frames) else "bad result %r" % (st.error,)
        except HarnessTimeout as ex:
            errs.append(repr(ex))
        except BaseException as ex:
            results[i] = "raised %r" % (ex,)
        finally:
            coop.finish(i)

    ths = [threading.Thread(target=main, args=(i,), daemon=True) for i in range(nthreads)]
    try:
        for t in ths:
            t.start()
        try:
            coop.run(req["schedule"], on_step)
        except HarnessTimeout as ex:
            return {"harness_error": repr(ex)}
        for t in ths:
            t.join(30)
    finally:
        V.callback = None
        for n in names:
            sys.modules.pop(n, None)
            _glue.builtin_glue_pending.pop(n, None)
    if errs:
        return {"harness_error": errs[0]}
    with warnings.catch_warnings():
        warnings.simplefilter("ignore")
        extract(1)
    for i, r in enumerate(results):
        if r != "ok":
            obs.append({"kind": "extract_in_thread", "thread": i, "result": r})
    if sorted(log) != sorted(expect):
        obs.append({"kind": "glue_runs_differ_from_model", "expected": sorted(expect), "got": sorted(log)})
    # in time: when a thread's extract returned, every expected glue had already run
    for i, n in enumerate(done_log_len):
        if n is not None and n < len(expect) and sorted(log) == sorted(expect):
            obs.append({"kind": "extract_returned_before_glue_was_installed", "thread": i, "ran_by_then": n,
                        "expected": len(expect)})
    return {"obs": obs, "known": [], "stats": {"steps": len(coop.trace), "glue_runs": len(log),
                                               "second_thread_passed_fastpath_during_scan": passed_fastpath_while_scanning[0]}}


ALIAS = [0]


def run_alias(req):
    """a module that has both kinds of glue and is in sys.modules under two names, the second name coming first (the module
    registered an alias for itself in its own body and importlib put the real name back at the end; or the real name
    was removed and re-inserted): the module's own glue runs, once; the built-in glue for it never"""
    obs = []
    for order in ("alias_first", "real_first", "alias_only_then_real"):
        ALIAS[0] += 1
        name = "valias_%d" % ALIAS[0]
        log = []
        m = types.ModuleType(name)

        def glue(log=log, name=name):
            log.append((name, "module"))
        m._stackscope_install_glue_ = glue
        _glue.builtin_glue(name)(lambda log=log, name=name: log.append((name, "builtin")))
        try:
            with warnings.catch_warnings(record=True) as w:
                warnings.simplefilter("always")
                if order == "alias_first":
                    sys.modules[name + "_oldname"] = m
                    sys.modules[name] = m
                elif order == "real_first":
                    sys.modules[name] = m
                    sys.modules[name + "_oldname"] = m
                else:
                    sys.modules[name + "_oldname"] = m
                    extract(1)
                    sys.modules[name] = m
                extract(1)
                sys.modules[name + "_filler"] = types.ModuleType(name + "_filler")
                extract(1)
            if log != [(name, "module")]:
                obs.append({"kind": "glue_runs_for_a_module_known_under_two_names", "order": order, "got": list(log),
                            "exp": [[name, "module"]]})
            if w:
                obs.append({"kind": "warnings", "msgs": [str(x.message)[:100] for x in w]})
        finally:
            for n in (name, name + "_oldname", name + "_filler"):
                sys.modules.pop(n, None)
            _glue.builtin_glue_pending.pop(name, None)
    return {"obs": obs[:3], "known": [], "stats": {"glue_runs": 3}}


LAZY = [0]


def run_lazyboth(req):
    """a module imported with importlib.util.LazyLoader (in sys.modules, body not run yet) for which there is built-in glue
    and which defines glue of its own: the scan neither loads it nor runs the built-in glue for it; once the program has
    used it (it is loaded), its own glue runs, once, and the built-in one never"""
    import builtins
    import importlib.util
    import os
    import shutil
    import tempfile
    LAZY[0] += 1
    name = "vlazy_%d_%d" % (os.getpid(), LAZY[0])
    d = tempfile.mkdtemp(prefix="c17lazy")
    log = []
    obs = []
    try:
        path = os.path.join(d, name + ".py")
        with open(path, "w") as f:
            f.write("import builtins\nLOG = builtins._c17_lazy_log\nLOG.append(('%s', 'body'))\n"
                    "def _stackscope_install_glue_():\n    LOG.append(('%s', 'module'))\nVALUE = 5\n" % (name, name))
        builtins._c17_lazy_log = log
        with warnings.catch_warnings():
            warnings.simplefilter("ignore")
            extract(1)
        _glue.builtin_glue(name)(lambda: log.append((name, "builtin")))
        spec = importlib.util.spec_from_file_location(name, path)
        loader = importlib.util.LazyLoader(spec.loader)
        spec.loader = loader
        module = importlib.util.module_from_spec(spec)
        sys.modules[name] = module
        loader.exec_module(module)
        with warnings.catch_warnings(record=True) as w:
            warnings.simplefilter("always")
            extract(1)
            if (name, "body") in log:
                obs.append({"kind": "lazily_imported_module_loaded_by_the_scan", "log": list(log)})
            if (name, "builtin") in log:
                obs.append({"kind": "builtin_glue_ran_for_a_module_that_has_not_been_loaded_and_brings_its_own", "log": list(log)})
            if module.VALUE != 5:          # the program uses the module: it loads now
                raise AssertionError("lazy module broken")
            other = types.ModuleType(name + "_other")     # (and something else is imported, as happens all the time)
            sys.modules[name + "_other"] = other
            extract(1)
            extract(1)
        if w:
            obs.append({"kind": "warnings", "msgs": [str(x.message)[:120] for x in w]})
        runs = [e for e in log if e[1] in ("module", "builtin")]
        if runs != [(name, "module")] and not obs:
            obs.append({"kind": "glue_runs_for_the_lazily_imported_module", "got": runs, "exp": [[name, "module"]]})
    finally:
        sys.modules.pop(name, None)
        sys.modules.pop(name + "_other", None)
        _glue.builtin_glue_pending.pop(name, None)
        shutil.rmtree(d, ignore_errors=True)
    return {"obs": obs, "known": [], "stats": {"glue_runs": len(log)}}


REENTRY = [0]


def run_reentrant(req):
    """an extraction that starts on the thread that is in the middle of installing glue: a module's glue function extracts a
    stack itself; a glue function fails and the program's warnings.showwarning hook dumps a stack with stackscope.  Every
    extraction returns, each glue has run exactly once, the other module's glue is installed as well."""
    variant = req["variant"]
    REENTRY[0] += 1
    n1, n2 = "vre_%d_a" % REENTRY[0], "vre_%d_b" % REENTRY[0]
    log = []

    def target():
        yield 1

    g = target()
    next(g)

    def nested(tag):
        st = extract(g)
        log.append((tag, len(st.frames), repr(st.error)))

    def glue1():
        log.append(("glue", n1))
        if variant == "glue_extracts":
            nested("nested_from_glue")
        else:
            raise ValueError("glue of %s fails" % n1)

    def glue2():
        log.append(("glue", n2))

    m1, m2 = types.ModuleType(n1), types.ModuleType(n2)
    m1._stackscope_install_glue_ = glue1
    m2._stackscope_install_glue_ = glue2
    result = {}

    def showwarning(message, category, filename, lineno, file=None, line=None):
        log.append(("warning", str(message)[:60]))
        nested("nested_from_warning_hook")

    def body():
        with warnings.catch_warnings():
            warnings.simplefilter("always")
            if variant == "warning_hook_extracts":
                warnings.showwarning = showwarning
            sys.modules[n1] = m1
            sys.modules[n2] = m2
            try:
                result["st"] = extract(g)
            except BaseException as ex:
                result["raised"] = repr(ex)

    th = threading.Thread(target=body, daemon=True)
    th.start()
    th.join(req.get("patience", 20))
    if th.is_alive():
        # (the stuck thread holds the library's lock: this process is of no further use)
        return {"corrupted": "extract() did not return within %d s: an extraction started on the thread that is installing "
                             "glue (%s) blocks for ever; log so far: %r" % (req.get("patience", 20), variant, log)}
    for n in (n1, n2):
        sys.modules.pop(n, None)
    obs = []
    if "raised" in result:
        obs.append({"kind": "extract_raised", "exc": result["raised"]})
    else:
        st = result["st"]
        if len(st.frames) != 1 or st.error is not None:
            obs.append({"kind": "outer_extraction_wrong", "frames": len(st.frames), "error": repr(st.error)})
    runs = [e for e in log if e[0] == "glue"]
    if sorted(runs) != [("glue", n1), ("glue", n2)]:
        obs.append({"kind": "glue_runs", "got": runs, "exp": "each of the two once"})
    nest = [e for e in log if e[0].startswith("nested")]
    if len(nest) != 1 or nest[0][1] != 1 or nest[0][2] != "None":
        obs.append({"kind": "nested_extraction", "got": nest})
    return {"obs": obs, "known": [], "stats": {"glue_runs": len(runs)}}


def handle(req):
    op = req["op"]
    if op == "glue.reentrant":
        return run_reentrant(req)
    if op == "glue.lazyboth":
        return run_lazyboth(req)
    if op == "glue.alias":
        return run_alias(req)
    if op == "glue.history":
        return run_history(req)
    if op == "glue.schedule":
        return run_schedule(req)
    raise AssertionError(op)
