"""G1 executor (worker side): render a with-program IR to source for *this* interpreter, run it under a
driver, and compare what stackscope reports with a shadow stack kept by the managers themselves.

Pure stdlib + stackscope; Python 3.9 syntax.  Used by C01, C02, C06, C08, C20.
"""
import ast
import gc
import linecache
import functools
import sys
import types
import warnings
import weakref

import stackscope
from stackscope import extract, extract_since
from stackscope.lowlevel import contexts_active_in_frame, set_trickery_enabled

PY = sys.version_info[:2]


class E1(Exception):
    pass


class E2(Exception):
    pass


class NS:
    pass


@types.coroutine
def trap(tag):
    return (yield tag)


class State:
    """All mutable per-program state (reset for every program)."""

    def __init__(self):
        self.sh = []          # shadow: [mgr, exiting]
        self.fr = []          # frame under test
        self.obs = []         # mismatches
        self.stats = {}
        self.meta = {}
        self.inflight = None  # manager whose enter/exit code is executing or suspended right now
        self.modes = ()
        self.cleanup = False
        self.ticks = {}
        self.events = []      # event trace (C06)
        self.extract_at = None  # C06: set of step indices at which to observe (None = all)
        self.step = 0
        self.probe_idx = 0
        self.repeat = 1
        self.dct = {}
        self.inject_points = 2     # at most this many suspension points per program get an injection sweep
        self.inject_max = 120      # at most this many injected faults per sweep (stride over the line points)
        self.inject_phase = 0
        self.allow_alias = True

    def bump(self, k, n=1):
        self.stats[k] = self.stats.get(k, 0) + n


S = State()


def ctxs_summary(cs):
    return [[getattr(c.obj, "k", None) if isinstance(c.obj, (M, AM)) else repr(c.obj), c.is_async,
             c.is_exiting, c.varname, c.start_line] for c in cs]


def shadow_summary():
    return [[m.k, m.is_async, ex] for m, ex in S.sh]


def add_obs(kind, where, **kw):
    d = {"kind": kind, "where": where}
    d.update(kw)
    if len(S.obs) < 40:
        S.obs.append(d)


def norm(src):
    d = ast.dump(ast.parse(src, mode="eval").body).replace("Store()", "Load()")
    # (a[:2] and a[None:2] are one and the same target - the compiler emits the same code for both)
    d = d.replace("lower=Constant(value=None), ", "").replace("upper=Constant(value=None), ", "")
    d = d.replace("Slice(upper=Constant(value=None))", "Slice()").replace(", upper=Constant(value=None))", ")")
    return d.replace("List(", "Tuple(")


# target forms the property says are "always rendered rather than dropped"; for every other form
# (walrus / arithmetic in a subscript, keyword call, slice) varname may legitimately be None
SUPPORTED = {"maybe_attr", "maybe_sub", "maybe_unpack", "name", "attr", "sub", "subname", "tuple", "star", "call_sub", "nested_attr", "list", "nested_unpack",
             "star_mid", "sub_chain", "attr_sub", "call_args", "star_first", "tuple_attr_sub", "global_name", "call_local",
             "sub_ellipsis", "call_noargs"}


def varname_ok(varname, meta, m, frame):
    tgt = meta["target"]
    if varname is None:
        # allowed only for no target / an unsupported target
        return meta["form"] not in SUPPORTED
    if tgt is not None:
        try:
            if norm(varname) == norm(tgt):
                return True
        except SyntaxError:
            return False
    if meta["form"] not in SUPPORTED and frame is not None:
        # fallback: name of a local currently bound to the manager
        return frame.f_locals.get(varname) is m
    return False


def check_exact(cs, where, pfx):
    """Exactness against the shadow (C01/C02); on success also the metadata rules (C08)."""
    exp = list(S.sh)
    ok = len(cs) == len(exp)
    if ok:
        for c, (m, ex) in zip(cs, exp):
            if c.obj is not m or c.is_async != m.is_async or bool(c.is_exiting) != ex:
                ok = False
                break
    if exp:
        S.bump(pfx + ".nonempty")
    if any(ex for _, ex in exp):
        S.bump(pfx + ".exiting")
        if S.inflight is not None and S.inflight.exit_exc:
            S.bump(pfx + ".exiting_exc_path")
    if len(exp) >= 2:
        S.bump(pfx + ".ge2")
    if not ok:
        add_obs(pfx + ".exact", where, got=ctxs_summary(cs), exp=shadow_summary())
        return False
    if "meta" in S.modes:
        for c, (m, ex) in zip(cs, exp):
            meta = S.meta.get(m.k)
            if meta is None:
                continue
            S.bump("meta.checked")
            if meta["form"] not in ("none", "name") or meta["item_line"] != meta["with_line"]:
                S.bump("meta.interesting")
            if c.start_line != meta["with_line"]:
                add_obs("meta.start_line", where, m=m.k, got=c.start_line, exp_with_line=meta["with_line"],
                        item_line=meta["item_line"], exiting=ex)
            if not varname_ok(c.varname, meta, m, S.fr[0] if S.fr else None):
                add_obs("meta.varname", where, m=m.k, got=c.varname, exp=meta["target"], form=meta["form"],
                        exiting=ex)
    return True


def check_referents(cs, where):
    """C20: ordered superset; an extra entry only for the manager this frame is entering/exiting right
    now; an is_exiting entry iff an exit call is in progress (last, right is_async and obj)."""
    exp = list(S.sh)
    active = [m for m, ex in exp if not ex]
    exiting = [m for m, ex in exp if ex]
    plain = [c for c in cs if not c.is_exiting]
    ok = True
    why = []
    it = iter(plain)
    for m in active:
        for c in it:
            if c.obj is m:
                if c.is_async != m.is_async:
                    ok = False
                    why.append("is_async of %r" % m)
                break
        else:
            ok = False
            why.append("missing or out of order: %r" % m)
    ex_entries = [c for c in cs if c.is_exiting]
    if len(ex_entries) != (1 if exiting else 0):
        ok = False
        why.append("is_exiting entries: %d, exit in progress: %s" % (len(ex_entries), bool(exiting)))
    elif exiting:
        c = ex_entries[0]
        if cs[-1] is not c or c.is_async != exiting[0].is_async or c.obj is not exiting[0]:
            ok = False
            why.append("exiting entry wrong")
    allowed = S.inflight
    seen_active = set()
    for c in plain:
        if any(c.obj is m for m in active) and id(c.obj) not in seen_active:
            seen_active.add(id(c.obj))
            continue
        if c.obj is not allowed:
            ok = False
            why.append("unexpected extra %r" % (c.obj,))
    if exp:
        S.bump("ref.nonempty")
    if len(exp) >= 2:
        S.bump("ref.ge2")
    if exiting:
        S.bump("ref.exiting")
        if S.inflight is not None and S.inflight.exit_exc:
            S.bump("ref.exiting_exc_path")
    if len(plain) > len(active):
        S.bump("ref.has_extra")
    if not ok:
        add_obs("ref.rel", where, got=ctxs_summary(cs), exp=shadow_summary(), why=why,
                inflight=getattr(allowed, "k", None))
    return ok


def _stack_methods(root):
    try:
        return [o for o in gc.get_referents(root) if isinstance(o, types.MethodType)]
    except Exception:
        return []


def use_result(st):
    """every read-only use of an extraction result"""
    try:
        str(st)
        st.format(ascii_only=True, show_hidden_frames=True)
        st.format_flat(show_contexts=True)
        st.as_stdlib_summary(show_contexts=True, show_hidden_frames=True)
        for f in st.frames:
            (f.clsname, f.modname, f.funcname, f.linetext, f.filename)
    except Exception:
        pass


def retention_check(do_extract, tracked, where, compare_equal=True):
    """C06: after one warm-up extraction in this very state, further extractions must leave the reference
    counts of the managers / the target / its frame / the bound methods on its value stack unchanged once
    the results are dropped, two consecutive results must compare equal, and nothing defined by stackscope
    may still refer to the managers."""
    # Nothing in THIS frame may hold an extraction result: when the target is a running stack this frame is
    # part of what is extracted, stackscope reads f_locals of every frame, and CPython <= 3.12 caches that
    # snapshot dict on the frame - a local `r` here would be kept alive by the interpreter's own snapshot.
    def once():
        do_extract()

    def pair():
        r1 = do_extract()
        use_result(r1)      # reading a result (printing it, summarising it) is not a change of the target either
        r2 = do_extract()
        if r1.error is not None or r2.error is not None:
            return True
        return (r1 == r2) if compare_equal is True else compare_equal(r1, r2)

    try:
        once()                # warm-up: the first look may make frames materialise their f_locals dict
        if not pair():
            add_obs("pure.consecutive_extractions_differ", where)
        once()
        gc.collect()
        before = [sys.getrefcount(o) for o in tracked]
        for _ in range(max(1, S.repeat)):
            once()
            once()
        gc.collect()
        after = [sys.getrefcount(o) for o in tracked]
    except BaseException as ex:
        add_obs("pure.raised", where, exc=repr(ex))
        return
    S.bump("pure.retention_checks")
    if before != after:
        add_obs("pure.refcount", where, before=before, after=after,
                objs=[type(o).__name__ for o in tracked])
    for m, _ex in S.sh:
        for ref in gc.get_referrers(m):
            mod = getattr(type(ref), "__module__", "") or ""
            if mod.startswith("stackscope"):
                add_obs("pure.retained_by_stackscope_object", where, referrer=type(ref).__name__, manager=m.k)


class Boom(Exception):
    pass


def _tracer(state, k):
    """sys.settrace function raising Boom at the k-th line event executed inside the trickery analysis."""
    def tracer(frame, event, arg):
        mod = frame.f_globals.get("__name__", "")
        if not mod.startswith("stackscope._lowlevel"):
            return None
        if frame.f_code.co_name in ("contexts_active_in_frame", "_check_trickery_available",
                                    "_contexts_active_by_referents", "set_trickery_enabled"):
            return None

        def local(frame, event, arg):
            if event == "line":
                state["n"] += 1
                if state["n"] == k:
                    state["fired"] = [frame.f_code.co_name, frame.f_lineno]
                    raise Boom("injected at line event %d" % k)
            return local
        return local
    return tracer


def injection_sweep(frame, obj, nxt, where):
    """C06 part: whatever happened inside the analysis, nothing of the target may stay referenced afterwards."""
    tracked = [frame] + [m for m, _e in S.sh] + ([obj] if obj is not None else [])
    with warnings.catch_warnings():
        warnings.simplefilter("ignore")
        try:
            contexts_active_in_frame(frame, obj, nxt)    # warm-up
        except BaseException:
            pass
    gc.collect()
    before = [sys.getrefcount(o) for o in tracked]
    # The faults are injected by a trace function that raises.  On CPython 3.11/3.12 a trace function raising at certain
    # line events inside an `except` block leaves the exception that block was handling in the thread's exc_info for
    # good (reproduced without stackscope), and that exception's traceback holds every frame of the call chain.  The
    # sweep therefore runs in a thread of its own: whatever the interpreter leaks into that thread state dies with it.
    import threading
    box = {}

    def in_thread():
        try:
            _injection_sweep(frame, obj, nxt, where)
        except BaseException as ex:       # a harness problem: hand it to the caller
            box["exc"] = ex
    t = threading.Thread(target=in_thread)
    t.start()
    t.join()
    del t
    if "exc" in box:
        raise box.pop("exc")
    gc.collect()
    after = [sys.getrefcount(o) for o in tracked]
    S.bump("inject.retention_checks")
    if after != before:
        add_obs("pure.retained_after_failed_trickery", where, before=before, after=after,
                objs=[type(o).__name__ for o in tracked])


def _injection_sweep(frame, obj, nxt, where):
    """C20: raise at (a stride of) every point inside the trickery analysis of this very frame state.
    contexts_active_in_frame must never raise; with an InspectionWarning the result must still be a sound
    ordered over-approximation; without one (the interpreter absorbed the exception) it must be exact."""
    state = {"n": 0, "fired": None}
    sys.settrace(_tracer(state, -1))
    try:
        with warnings.catch_warnings():
            warnings.simplefilter("ignore")
            contexts_active_in_frame(frame, obj, nxt)
    finally:
        sys.settrace(None)
    total = state["n"]
    S.bump("inject.line_points", total)
    # (bounded work: for the few programs with thousands of instructions before the body the analysis has tens of
    # thousands of line events, each faulted run traces up to all of them - fewer fault points there)
    nmax = S.inject_max if total <= 4000 else max(3, S.inject_max * 4000 // total)
    stride = max(1, total // nmax)
    start = 1 + (S.inject_phase % stride)
    for k in range(start, total + 1, stride):
        state = {"n": 0, "fired": None}
        res = None
        with warnings.catch_warnings(record=True) as w:
            warnings.simplefilter("always")
            sys.settrace(_tracer(state, k))
            try:
                res = contexts_active_in_frame(frame, obj, nxt)
            except BaseException as ex:
                add_obs("ref.raised_under_injected_fault", where, exc=repr(ex), k=k, at=state["fired"])
            finally:
                sys.settrace(None)
        if state["fired"] is None or res is None:
            continue
        S.bump("inject.fired")
        iw = [x for x in w if x.category.__name__ == "InspectionWarning"]
        n_before = len(S.obs)
        if iw:
            S.bump("inject.warned_and_fell_back")
            check_referents(res, where)
        else:
            S.bump("inject.absorbed")
            exp = list(S.sh)
            # (one place of the analysis contains exceptions on purpose: the lookup of the manager behind an exit callable,
            # which may run foreign code - _manager_of.  A fault injected there is contained the same way: that one
            # entry's obj is None, documented as "manager not recoverable"; everything else stays exact.)
            contained = 1 if state["fired"] and state["fired"][0] == "_manager_of" else 0
            unknown = sum(1 for c, (m, ex) in zip(res, exp) if c.obj is None and m is not None)
            good = len(res) == len(exp) and unknown <= contained and all(
                (c.obj is m or c.obj is None) and c.is_async == m.is_async and bool(c.is_exiting) == ex
                for c, (m, ex) in zip(res, exp))
            if contained and unknown:
                S.bump("inject.contained_by_manager_lookup_guard")
            if not good:
                add_obs("ref.no_warning_but_not_exact_under_injected_fault", where, got=ctxs_summary(res),
                        exp=shadow_summary())
        for o in S.obs[n_before:]:
            o["injected_at"] = state["fired"]
            o["k"] = k
        if len(S.obs) > 3:
            return


def note_warnings(w, where, pfx):
    for x in w:
        S.bump(pfx + ".warnings")
        add_obs(pfx + ".warning", where, msg=str(x.message)[:300], cat=x.category.__name__)


def probe(k, where=None):
    """Observation of the *running* frame under test from nested code (C02)."""
    if not S.fr or S.cleanup:
        return
    S.probe_idx += 1
    S.events.append(("probe", k))
    if "run" not in S.modes:
        return
    if S.extract_at is not None and ("p", S.probe_idx) not in S.extract_at:
        return
    where = where or ["probe", k]
    S.bump("run.checks")
    if where[0] in ("exit", "aexit", "aexit2"):
        S.bump("run.from_exit")
        if where[0] != "exit":
            S.bump("run.from_aexit")
        if S.inflight is not None and S.inflight.exit_exc:
            S.bump("run.from_exit_exc")
    elif where[0] in ("enter", "aenter", "aenter2"):
        S.bump("run.from_enter")
    for _ in range(S.repeat):
        with warnings.catch_warnings(record=True) as w:
            warnings.simplefilter("always")
            try:
                st = extract_since(S.fr[0])
            except BaseException as ex:
                add_obs("run.raised", where, exc=repr(ex))
                return
        note_warnings(w, where, "run")
        if st.error is not None:
            add_obs("run.error", where, exc=repr(st.error))
        if not st.frames or st.frames[0].pyframe is not S.fr[0]:
            add_obs("run.frames", where, got=[f.funcname for f in st.frames])
            return
        check_exact(st.frames[0].contexts, where, "run")
        del st
    if "pure" in S.modes:
        fr = S.fr[0]
        snapshot_bound_check(fr, where)
        tracked = [m for m, _e in S.sh] + [fr]
        # the callers' own frames advance between two calls (different line), so only the frame under
        # test - which has not moved - is compared
        retention_check(lambda: extract_since(fr), tracked, where,
                        compare_equal=lambda a, b: bool(a.frames) and bool(b.frames) and a.frames[0] == b.frames[0])


def snapshot_bound_check(fr, where):
    """A frame that is running (in the middle of a call) only keeps alive the value-stack slots below the depth of
    the exception-table entry covering its current instruction (none: 0); anything above is dead memory.  The
    low-level snapshot of such a frame must not read beyond that (CPython >= 3.11; the table is parsed here by the
    standard library's own `dis`, not by the code under test)."""
    if PY < (3, 11):
        return
    import dis
    import stackscope.lowlevel as ll
    from stackscope._lowlevel_cpython_311 import FrameObject
    if FrameObject.from_address(id(fr)).f_frame.contents.stacktop != -1:
        # the frame saved its stack pointer (it made an inlined Python call): everything below it is alive
        S.bump("pure.snapshot_frame_with_saved_stack_pointer")
        return
    live = 0
    for e in dis._parse_exception_table(fr.f_code):
        if e.start <= fr.f_lasti < e.end:
            live = e.depth
            break
    try:
        d = ll.inspect_frame(fr)
    except BaseException as ex:
        add_obs("pure.inspect_frame_raised", where, exc=repr(ex))
        return
    S.bump("pure.snapshot_bound_checks")
    if live == 0:
        S.bump("pure.snapshot_bound_checks_at_uncovered_position")
    if len(d.stack) > live:
        add_obs("pure.snapshot_reads_dead_value_stack_slots", where, read=len(d.stack), live=live)


class M:
    is_async = False

    def __init__(self, k, swallow=False, xraise=False, ret=None, falsy=False):
        self.k, self.swallow, self.xraise, self.ret, self.falsy = k, swallow, xraise, ret, falsy
        self.exit_exc = False

    def __repr__(self):
        return "M(%d)" % self.k

    def __bool__(self):
        # truth-testing is a call into the target's own code: an observer must not do it (C06)
        S.events.append(("bool", self.k))
        return not self.falsy

    def __enter__(self):
        S.events.append(("enter", self.k))
        prev, S.inflight = S.inflight, self
        try:
            probe(self.k, ["enter", self.k])
            S.sh.append([self, False])
            return self if self.ret is None else self.ret
        finally:
            S.inflight = prev

    def __exit__(self, et, ev, tb):
        S.events.append(("exit", self.k, et.__name__ if et else None))
        assert S.sh[-1][0] is self
        S.sh[-1][1] = True
        prev, S.inflight = S.inflight, self
        self.exit_exc = et is not None
        try:
            probe(self.k, ["exit", self.k])
            if self.xraise:
                raise E2("from exit")
            return self.swallow
        finally:
            S.sh.pop()
            S.inflight = prev


class AM:
    is_async = True

    def __init__(self, k, swallow=False, xraise=False, ret=None, senter=False, sexit=False, falsy=False):
        self.k, self.swallow, self.xraise, self.ret, self.senter, self.sexit = k, swallow, xraise, ret, senter, sexit
        self.falsy = falsy
        self.exit_exc = False

    def __repr__(self):
        return "AM(%d)" % self.k

    def __bool__(self):
        S.events.append(("bool", self.k))
        return not self.falsy

    async def __aenter__(self):
        S.events.append(("aenter", self.k))
        prev, S.inflight = S.inflight, self
        try:
            probe(self.k, ["aenter", self.k])
            if self.senter:
                await trap(["aenter", self.k])
                probe(self.k, ["aenter2", self.k])
            S.sh.append([self, False])
            return self if self.ret is None else self.ret
        finally:
            S.inflight = prev

    async def __aexit__(self, et, ev, tb):
        S.events.append(("aexit", self.k, et.__name__ if et else None))
        assert S.sh[-1][0] is self
        S.sh[-1][1] = True
        prev, S.inflight = S.inflight, self
        self.exit_exc = et is not None
        try:
            probe(self.k, ["aexit", self.k])
            if self.sexit:
                await trap(["aexit", self.k])
                probe(self.k, ["aexit2", self.k])
            if self.xraise:
                raise E2("from aexit")
            return self.swallow
        finally:
            S.sh.pop()
            S.inflight = prev


class MAlias(M):
    """exit method defined under another name and aliased (its code object is called `close_`)"""

    def close_(self, et, ev, tb):
        return M.__exit__(self, et, ev, tb)

    __exit__ = close_


class AMAlias(AM):
    async def aclose(self, et, ev, tb):
        return await AM.__aexit__(self, et, ev, tb)

    __aexit__ = aclose


class AMDeleg(AM):
    """__aexit__ is a plain function that hands the awaitable of the real exit back (the delegation idiom): user code runs
    during the CALL of __aexit__, before anything is awaited"""

    def __aexit__(self, et, ev, tb):
        assert S.sh[-1][0] is self
        S.sh[-1][1] = True
        prev, S.inflight = S.inflight, self
        self.exit_exc = et is not None
        try:
            probe(self.k, ["aexit", self.k])
        finally:
            S.inflight = prev
        return AM.__aexit__(self, et, ev, tb)


def _logged(fn):
    import functools

    @functools.wraps(fn)
    def wrapper(self, *a):      # the frame directly called by the with statement is `wrapper`
        return fn(self, *a)
    return wrapper


def _alogged(fn):
    import functools

    @functools.wraps(fn)
    async def wrapper(self, *a):
        return await fn(self, *a)
    return wrapper


class MDeco(M):
    __exit__ = _logged(M.__exit__)


class AMDeco(AM):
    __aexit__ = _alogged(AM.__aexit__)


class MDual(M):
    """a manager that supports both protocols, entered here through the plain `with` statement"""

    async def __aenter__(self):
        raise AssertionError("harness: the async protocol of a manager entered with a plain `with` was used")

    async def __aexit__(self, *a):
        raise AssertionError("harness: the async protocol of a manager entered with a plain `with` was used")


class AMDual(AM):
    """a manager that supports both protocols, entered here through `async with`"""

    def __enter__(self):
        raise AssertionError("harness: the sync protocol of a manager entered with `async with` was used")

    def __exit__(self, *a):
        raise AssertionError("harness: the sync protocol of a manager entered with `async with` was used")


class MEq(M):
    """a manager with value semantics (a dataclass, say): equal to every other one with the same number"""

    def __eq__(self, other):
        return isinstance(other, (MEq, AMEq)) and other.k == self.k

    def __hash__(self):
        return hash(self.k)


class AMEq(AM):
    def __eq__(self, other):
        return isinstance(other, (MEq, AMEq)) and other.k == self.k

    def __hash__(self):
        return hash(self.k)


def noop():
    S.events.append(("noop",))


def kwget(k=0):
    return S.dct


class _Victim:
    pass


def dead_proxy():
    v = _Victim()
    return weakref.proxy(v)       # v dies on return: every look at the proxy raises ReferenceError


class LazyObject:
    """stands for the lazy proxies of web frameworks: asking for its class evaluates it - an event of the program"""

    @property
    def __class__(self):
        S.events.append(("lazy_object_evaluated",))
        return LazyObject


def nameless_method(obj):
    return types.MethodType(functools.partial(len), obj)      # its __func__ has no __name__


class RemoteError(Exception):
    pass


class _RemoteProxy:
    """a callable proxy for something that lives elsewhere (RPC stubs, mocks with a spec): every unknown attribute is looked
    up remotely, and that fails - not with AttributeError"""

    def __call__(self, *a):
        return None

    def __getattr__(self, name):
        raise RemoteError("cannot reach the remote object for %r" % name)


class _TouchyName:
    """a __name__ that is not a string and does not like being compared"""

    def __eq__(self, other):
        raise TypeError("not comparable")

    __hash__ = None


class _TaggedCallable:
    __name__ = _TouchyName()

    def __call__(self, *a):
        return None


def hostile_methods(obj):
    # bound methods whose function objects object to being asked their name
    return (types.MethodType(_RemoteProxy(), obj), types.MethodType(_TaggedCallable(), obj))


def getdct():
    return S.dct


def pick(d, a, b):
    return d[a]


def _all_items(stmts):
    for s_ in stmts:
        if not isinstance(s_, dict):
            continue
        if s_.get("t") == "with":
            for it in s_["items"]:
                yield it
        for key in ("body", "orelse", "final"):
            for x in _all_items(s_.get(key) or []):
                yield x
        for h in s_.get("handlers") or []:
            for x in _all_items(h["body"]):
                yield x
        for c in s_.get("cases") or []:
            for x in _all_items(c):
                yield x


def tick(c, i):
    # while-loop condition: true at most twice, and only if c[i]
    n = S.ticks.get(i, 0)
    S.ticks[i] = n + 1
    return c[i % len(c)] and n < 2


# ------------------------------------------------------------------------------------ rendering

class R:
    def __init__(self, prog):
        self.p = prog
        self.kind = prog["kind"]
        self.lines = []
        self.meta = {}
        self.susp_flip = 0

    def emit(self, ind, s):
        self.lines.append("    " * ind + s)
        return len(self.lines)  # 1-based line number

    def target(self, form, k):
        """-> (target source or None, value __enter__ must return or None)"""
        if form == "none":
            return None, None
        if form == "name":
            return "v%d" % k, None
        if form == "attr":
            return "ns.a%d" % k, None
        if form == "maybe_attr":      # rooted in a local the compiler cannot prove bound (LOAD_FAST_CHECK on 3.12)
            return "mns.a%d" % k, None
        if form == "maybe_sub":
            return "mdct['k%d']" % k, None
        if form == "maybe_unpack":
            return "(mu%d, *mdct['r%d'])" % (k, k), "(1, 2, 3)"
        if form == "nested_attr":
            return "ns.sub.a%d" % k, None
        if form == "sub":
            return "dct['k%d']" % k, None
        if form == "subname":
            return "dct[key]", None
        if form == "slice":
            return "lst[1:2]", "(7,)"
        if form == "call_sub":
            return "dct.get('sub')['k%d']" % k, None
        if form == "sub_chain":
            return "grid[0][1]", None
        if form == "attr_sub":
            return "ns.sub.slots[key]", None
        if form == "call_args":
            return "pick(dct, 'sub', key)['k%d']" % k, None
        if form == "call_local":
            return "lpick(dct, 'sub', key)['k%d']" % k, None
        if form == "call_noargs":
            return ["getdct()['k%d']" % k, "lgetdct()['k%d']" % k, "ns.getdct()['k%d']" % k][k % 3], None
        if form == "sub_ellipsis":
            return "dct[...]", None
        if form == "open_slice":
            return ["lst[:2]", "lst[1:]", "lst[:]"][k % 3], "(7,)"
        if form == "star_first":
            return "(*r%d, t%d)" % (k, k), "(1, 2, 3)"
        if form == "tuple_attr_sub":
            return "(ns.p%d, dct['q%d'])" % (k, k), "(1, 2)"
        if form == "global_name":
            return "GV", None
        if form == "tuple":
            return "(p%d, q%d)" % (k, k), "(1, 2)"
        if form == "list":
            return "[p%d]" % k, "(1,)"
        if form == "star":
            return "(h%d, *r%d)" % (k, k), "(1, 2, 3)"
        if form == "star_mid":
            return "(h%d, *r%d, t%d)" % (k, k, k), "(1, 2, 3, 4)"
        if form == "nested_unpack":
            return "(p%d, (q%d, ns.z%d))" % (k, k, k), "(1, (2, 3))"
        # unsupported forms: varname may legitimately be None
        if form == "walrus":
            return "dct[(w%d := 'x')]" % k, None
        if form == "arith":
            return "dct[key + '%d']" % k, None
        if form == "kwcall":
            return "kwget(k=%d)['k%d']" % (k, k), None
        raise AssertionError(form)

    def mgr_expr(self, it, is_async):
        tgt, ret = self.target(it["target"], it["m"])
        args = [str(it["m"])]
        if it.get("swallow"):
            args.append("swallow=True")
        if it.get("xraise"):
            args.append("xraise=True")
        if it.get("falsy"):
            args.append("falsy=True")
        if ret:
            args.append("ret=%s" % ret)
        if is_async:
            if it.get("senter"):
                args.append("senter=True")
            if it.get("sexit"):
                args.append("sexit=True")
        cls = "AM" if is_async else "M"
        if S.allow_alias and it.get("exitname") in ("Alias", "Deco"):
            cls += it["exitname"]
        elif it.get("exitname") == "Deleg":
            if is_async:
                cls += "Deleg"
        elif it.get("exitname") == "Dual":
            cls += "Dual"
        elif it.get("exitname") == "Eq":
            cls += "Eq"
        return cls, args, tgt

    def render_with(self, s, ind):
        is_async = s["async"] and self.kind in ("coro", "agen")
        kw = "async with" if is_async else "with"
        layout = s.get("layout", "one")
        if layout == "paren" and PY < (3, 9):
            layout = "one"
        parts = []
        for it in s["items"]:
            cls, args, tgt = self.mgr_expr(it, is_async)
            parts.append((it, cls, args, tgt))
        if layout == "one":
            txt = ", ".join("%s(%s)%s" % (cls, ", ".join(args), " as " + tgt if tgt else "")
                            for it, cls, args, tgt in parts)
            ln = self.emit(ind, "%s %s:" % (kw, txt))
            for it, cls, args, tgt in parts:
                self.meta[it["m"]] = {"with_line": ln, "item_line": ln, "target": tgt, "form": it["target"]}
        elif layout == "multi":
            # each manager call spans several lines (backslash-free: inside the call's parentheses)
            first = True
            with_line = None
            for idx, (it, cls, args, tgt) in enumerate(parts):
                head = (kw + " " if first else "") + cls + "("
                ln = self.emit(ind, head)
                if first:
                    with_line = ln
                first = False
                for a in args:
                    self.emit(ind + 2, a + ",")
                tail = ")" + (" as " + tgt if tgt else "") + ("," if idx < len(parts) - 1 else ":")
                if idx < len(parts) - 1:
                    tail += " \\"
                self.emit(ind, tail)
                self.meta[it["m"]] = {"with_line": with_line, "item_line": ln, "target": tgt, "form": it["target"]}
        else:  # paren (3.9's PEG parser accepts it, officially 3.10+)
            with_line = self.emit(ind, kw + " (")
            for it, cls, args, tgt in parts:
                ln = self.emit(ind + 1, "%s(%s)%s," % (cls, ", ".join(args), " as " + tgt if tgt else ""))
                self.meta[it["m"]] = {"with_line": with_line, "item_line": ln, "target": tgt, "form": it["target"]}
            self.emit(ind, "):")
        self.block(s["body"], ind + 1)

    def block(self, stmts, ind):
        if not stmts:
            self.emit(ind, "pass")
        for s in stmts:
            self.stmt(s, ind)

    def stmt(self, s, ind):
        t = s["t"]
        if t == "with":
            self.render_with(s, ind)
        elif t == "try":
            self.emit(ind, "try:")
            self.block(s["body"], ind + 1)
            for h in s["handlers"]:
                self.emit(ind, "except %s%s:" % (h["exc"], " as ex" if h.get("as") else ""))
                self.block(h["body"], ind + 1)
            if s.get("orelse") and s["handlers"]:
                self.emit(ind, "else:")
                self.block(s["orelse"], ind + 1)
            if s.get("final") or not s["handlers"]:
                self.emit(ind, "finally:")
                self.block(s.get("final") or [], ind + 1)
        elif t == "for":
            self.emit(ind, "for _i in range(%d):" % s["n"])
            self.block(s["body"], ind + 1)
            if s.get("orelse"):
                self.emit(ind, "else:")
                self.block(s["orelse"], ind + 1)
        elif t == "while":
            self.emit(ind, "while tick(c, %d):" % s["c"])
            self.block(s["body"], ind + 1)
        elif t == "if":
            self.emit(ind, "if c[%d]:" % s["c"])
            self.block(s["body"], ind + 1)
            if s.get("orelse"):
                self.emit(ind, "else:")
                self.block(s["orelse"], ind + 1)
        elif t == "match":
            if PY >= (3, 10):
                self.emit(ind, "match c[%d]:" % s["c"])
                self.emit(ind + 1, "case True:")
                self.block(s["cases"][0], ind + 2)
                self.emit(ind + 1, "case _:")
                self.block(s["cases"][1], ind + 2)
            else:
                self.emit(ind, "if c[%d] is True:" % s["c"])
                self.block(s["cases"][0], ind + 1)
                self.emit(ind, "else:")
                self.block(s["cases"][1], ind + 1)
        elif t == "susp":
            k = s["k"]
            if self.kind == "gen":
                self.emit(ind, "yield ['s', %d]" % k)
            elif self.kind == "coro":
                self.emit(ind, "await trap(['s', %d])" % k)
            elif self.kind == "agen":
                self.susp_flip += 1
                if self.susp_flip % 2:
                    self.emit(ind, "yield ['s', %d]" % k)
                else:
                    self.emit(ind, "await trap(['s', %d])" % k)
            else:
                self.emit(ind, "probe(%d)" % k)
        elif t == "probe":
            # every other probe is reached through a C-level callable: the frame under test is then in the middle of
            # a C call (its interpreter frame has no saved stack pointer), not of an inlined Python-to-Python call
            self.emit(ind, ("cprobe(%d)" if s["k"] % 2 else "probe(%d)") % s["k"])
        elif t == "noop":
            self.emit(ind, "noop()")
        elif t == "ret":
            self.emit(ind, "return")
        elif t == "retk":
            if self.kind == "agen":
                self.emit(ind, "return")
            else:
                self.emit(ind, "return 7")
        elif t == "retv":
            if self.kind == "agen":
                self.emit(ind, "return")
            else:
                self.emit(ind, "return c")
        elif t == "raise":
            self.emit(ind, "raise E1('body')")
        elif t == "break":
            self.emit(ind, "break")
        elif t == "continue":
            self.emit(ind, "continue")
        else:
            raise AssertionError(t)

    def render(self):
        hdr = "async def f(c):" if self.kind in ("coro", "agen") else "def f(c):"
        self.emit(0, hdr)
        if self.p.get("extarg"):
            self.emit(1, "'''Docstring, so that None is not among the first 256 constants.'''")
            self.emit(1, "s = 'A' * 400")
            for _ in range({1: 1, 2: 8, 3: 15}.get(int(self.p["extarg"]), 1)):
                self.emit(1, "big = [%s]" % ", ".join("s[%d]" % i for i in range(300)))
        cl = self.p.get("closure", 0)
        if cl in (1, 3):
            self.emit(1, "fns_ = [(lambda: item_) for item_ in (1, 2)]")
        if cl in (2, 3):
            self.emit(1, "argcap_ = lambda: c")
        if cl == 4:
            self.emit(1, "cellv_ = 5")
            self.emit(1, "def inner_(): return cellv_")
        self.emit(1, "FR.append(sys._getframe())")
        if any(it.get("target") == "global_name" for it in _all_items(self.p["body"])):
            self.emit(1, "global GV")
        for it in _all_items(self.p["body"]):
            if it.get("exitname") == "Eq":
                # a different object that compares equal to the manager, held in a local that comes early in f_locals
                self.emit(1, "eqdecoy%d = MEq(%d)" % (it["m"], it["m"]))
        self.emit(1, "lpick = pick; lgetdct = getdct")
        if self.p.get("big_const"):
            self.emit(1, "bigmask = 0x1" + "f" * 6000)
        if self.p.get("odd_locals"):
            self.emit(1, "oddl_dead = dead_proxy(); oddl_lazy = LazyObject(); oddl_meth = nameless_method(oddl_lazy)")
            self.emit(1, "oddl_hostile = hostile_methods(oddl_lazy); oddl_h0 = oddl_hostile[0]; oddl_h1 = oddl_hostile[1]")
        self.emit(1, "ns = NS(); ns.getdct = getdct; ns.sub = NS(); ns.sub.slots = {}; dct = S.dct; key = 'kk'; lst = [0, 1, 2, 3]; "
                     "grid = [[0, 0], [0, 0]]")
        if any(str(it.get("target", "")).startswith("maybe_") for it in _all_items(self.p["body"])):
            # bound on every path that is ever taken, but not provably so
            self.emit(1, "if c is not None:")
            self.emit(2, "mns = NS(); mdct = {}")
        self.block(self.p["body"], 1)
        if self.kind in ("gen", "agen"):
            self.emit(1, "yield ['end', 0]")
        return "\n".join(self.lines) + "\n"


# ------------------------------------------------------------------------------------ driving

class Driver:
    def __init__(self, kind, obj):
        self.kind, self.obj, self.aw = kind, obj, None

    def step(self, action):
        exc = None
        if action.startswith("throw:"):
            exc = {"E1": E1, "E2": E2}[action[6:]]("thrown")
        try:
            if self.kind in ("gen", "coro"):
                v = self.obj.send(None) if exc is None else self.obj.throw(exc)
                return ("susp", v)
            # async generator: step the asend()/athrow() awaitable by hand, so that both yield points
            # and await points inside the generator are observation points
            if self.aw is None:
                self.aw = self.obj.asend(None) if exc is None else self.obj.athrow(exc)
                v = self.aw.send(None)
            else:
                v = self.aw.send(None) if exc is None else self.aw.throw(exc)
            return ("susp", v)
        except StopIteration as si:
            if self.kind == "agen":
                self.aw = None
                return ("susp", si.value)
            return ("done", ["return", repr(si.value is not None)])
        except StopAsyncIteration:
            self.aw = None
            return ("done", ["stop_async"])
        except (E1, E2) as ex:
            self.aw = None
            return ("done", ["raised", type(ex).__name__, str(ex)])

    def cleanup(self):
        try:
            if self.kind == "agen":
                if self.aw is not None:
                    try:
                        self.aw.close()
                    except BaseException:
                        pass
                c = self.obj.aclose()
                for _ in range(50):
                    c.send(None)
            else:
                self.obj.close()
        except BaseException:
            pass


def observe_suspended(obj, kind, where, via=None):
    frame = getattr(obj, {"gen": "gi_frame", "coro": "cr_frame", "agen": "ag_frame"}[kind])
    if frame is None:
        return
    if "susp" in S.modes:
        S.bump("susp.checks")
        if S.inflight is not None:
            S.bump("susp.in_enter_or_exit")
            if not any(ex for _, ex in S.sh):
                S.bump("susp.in_aenter")
        for rep in range(S.repeat):
            with warnings.catch_warnings(record=True) as w:
                warnings.simplefilter("always")
                try:
                    stk = extract(obj)
                except BaseException as ex:
                    add_obs("susp.raised", where, exc=repr(ex))
                    stk = None
            note_warnings(w, where, "susp")
            if stk is None:
                break
            if stk.error is not None:
                add_obs("susp.error", where, exc=repr(stk.error))
            if not stk.frames or stk.frames[0].pyframe is not frame:
                add_obs("susp.frames", where, got=[f.funcname for f in stk.frames])
                break
            check_exact(stk.frames[0].contexts, where, "susp")
            # the low-level entry point named by the property, with the same origin / next_inner
            nxt = stk.frames[1].pyframe if len(stk.frames) > 1 else None
            with warnings.catch_warnings(record=True) as w:
                warnings.simplefilter("always")
                try:
                    low = contexts_active_in_frame(frame, obj, nxt)
                except BaseException as ex:
                    add_obs("susp.raised", where, exc="lowlevel: " + repr(ex))
                    low = None
            note_warnings(w, where, "susp")
            if low is not None:
                exp = list(S.sh)
                good = len(low) == len(exp) and all(
                    c.obj is m and c.is_async == m.is_async and bool(c.is_exiting) == ex
                    for c, (m, ex) in zip(low, exp))
                if not good:
                    add_obs("susp.exact", where, got=ctxs_summary(low), exp=shadow_summary(), via="lowlevel")
            del stk, low
    if "pure" in S.modes:
        root = obj if PY >= (3, 11) else frame
        tracked = [m for m, _e in S.sh] + [obj, frame] + _stack_methods(root)
        retention_check(lambda: extract(obj), tracked, where)
        # the frame of a suspended target named as the outer end of a slice of the running stack: it is running nowhere,
        # the documented result is that one frame plus an error - and nothing may be kept of it afterwards either
        retention_check(lambda: extract_since(frame), tracked, where + ["as-slice-of-a-suspended-frame"])
        del tracked
    if "inject" in S.modes and S.sh and S.inject_points > 0:
        S.inject_points -= 1
        try:
            stk0 = extract(obj)
            nxt0 = stk0.frames[1].pyframe if len(stk0.frames) > 1 else None
            del stk0
        except BaseException:
            nxt0 = None
        injection_sweep(frame, obj, nxt0, where)
    if "ref" in S.modes:
        S.bump("ref.checks")
        set_trickery_enabled(False)
        try:
            with warnings.catch_warnings(record=True) as w:
                warnings.simplefilter("always")
                try:
                    stk = extract(obj)
                except BaseException as ex:
                    add_obs("ref.raised", where, exc=repr(ex))
                    stk = None
            note_warnings(w, where, "ref")
            if stk is not None:
                if stk.error is not None:
                    add_obs("ref.error", where, exc=repr(stk.error))
                if stk.frames and stk.frames[0].pyframe is frame:
                    check_referents(stk.frames[0].contexts, where)
                else:
                    add_obs("ref.frames", where, got=[f.funcname for f in stk.frames])
            if via is not None and stk is not None:
                # the same frame reached THROUGH another stack item (the asend()/athrow() awaitable that is driving the
                # async generator): which object owns the frame must survive the hop, or the analysis looks in the wrong place
                S.bump("ref.via_awaitable")
                with warnings.catch_warnings(record=True) as w:
                    warnings.simplefilter("always")
                    try:
                        stk2 = extract(via)
                    except BaseException as ex:
                        add_obs("ref.raised", where + ["via-awaitable"], exc=repr(ex))
                        stk2 = None
                note_warnings(w, where + ["via-awaitable"], "ref")
                if stk2 is not None:
                    if stk2.frames and stk2.frames[0].pyframe is frame:
                        check_referents(stk2.frames[0].contexts, where + ["via-awaitable"])
                    else:
                        add_obs("ref.frames", where + ["via-awaitable"], got=[f.funcname for f in stk2.frames])
        finally:
            set_trickery_enabled(None)


def compile_program(prog):
    r = R(prog)
    src = r.render()
    fname = "<g1-prog>"
    linecache.cache[fname] = (len(src), None, src.splitlines(True), fname)
    ns = {"M": M, "AM": AM, "MAlias": MAlias, "AMAlias": AMAlias, "MDeco": MDeco, "AMDeco": AMDeco, "MDual": MDual, "AMDual": AMDual, "MEq": MEq, "AMEq": AMEq, "AMDeleg": AMDeleg, "E1": E1, "E2": E2, "NS": NS, "trap": trap, "probe": probe, "cprobe": functools.partial(probe), "noop": noop,
          "FR": S.fr, "sys": sys, "tick": tick, "S": S, "kwget": kwget, "pick": pick, "getdct": getdct, "dead_proxy": dead_proxy, "LazyObject": LazyObject,
          "nameless_method": nameless_method, "hostile_methods": hostile_methods, "GV": None,
          "__name__": "g1prog"}
    with warnings.catch_warnings():
        warnings.simplefilter("ignore")  # SyntaxWarning: 'return' in a 'finally' block etc.
        code = compile(src, fname, "exec")
    exec(code, ns)
    return r, src, ns


def run_program(prog, modes, extract_at=None, repeat=1, inject=None):
    global S
    S = State()
    if prog.get("deep", 0) >= 19 and PY >= (3, 12):
        # the CPython 3.12.1 *compiler* itself crashes (SIGSEGV) when a function nests 19-20 with blocks (reproduced without
        # stackscope); such programs are only run on 3.9-3.11
        return {"obs": [], "stats": {"skipped.deep19plus_on_3.12": 1}, "trace": [], "result": None, "events": []}
    S.modes = tuple(modes)
    if inject:
        S.inject_points, S.inject_max, S.inject_phase = inject
    # the referents fallback documents that it only recognises exit methods that know their name is
    # __exit__/__aexit__: aliased / decorated exit methods are used in trickery mode only
    S.allow_alias = not ({"ref", "inject"} & set(modes))
    S.extract_at = None if extract_at is None else set(tuple(x) for x in extract_at)
    S.repeat = repeat
    S.dct = {"sub": {}, "kk": None}
    r, src, ns = compile_program(prog)
    S.meta = r.meta
    kind = prog["kind"]
    conds = prog["conds"]
    trace = []
    result = None
    if "opjump" in S.modes:
        # The frame under test is also looked at BETWEEN its calls: an opcode-level trace function (what a debugger, a
        # signal handler or another thread may see) inspects it whenever the instruction it is about to execute is a
        # backward jump - the back edge of a loop, where the interpreter handles signals and switches threads.
        _install_opjump_tracer(ns["f"].__code__)
    try:
        return _run_program_body(prog, kind, conds, trace, result, ns, src)
    finally:
        if "opjump" in S.modes:
            sys.settrace(None)


def _install_opjump_tracer(code):
    import dis
    try:
        back = set(i.offset for i in dis.get_instructions(code)
                   if (i.opcode in dis.hasjrel or i.opcode in dis.hasjabs) and isinstance(i.argval, int) and i.argval <= i.offset
                   # (not the jump inside the loop that `await` / `yield from` compile to on 3.11+: the interpreter attends
                   # to nothing there, and nothing can look at a frame while it is at that instruction)
                   and i.opname != "JUMP_BACKWARD_NO_INTERRUPT")
    except ValueError:
        return      # (a constant dis cannot render: this leg is skipped for that program)
    if not back:
        return
    from stackscope.lowlevel import contexts_active_in_frame as _caif

    def local(frame, event, arg):
        if event == "opcode" and frame.f_lasti in back and not S.cleanup and S.fr and frame is S.fr[0]:
            where = ["opjump", frame.f_lasti]
            S.bump("run.at_backward_jump")
            with warnings.catch_warnings(record=True) as w:
                warnings.simplefilter("always")
                try:
                    cs = _caif(frame)
                except BaseException as ex:
                    add_obs("run.raised", where, exc=repr(ex))
                    return local
            note_warnings(w, where, "run")
            check_exact(cs, where, "run")
        return local

    def tracer(frame, event, arg):
        if frame.f_code is code:
            frame.f_trace_opcodes = True
            return local
        return None

    # (CPython 3.12 delivers opcode events only to trace functions installed AFTER some frame of the interpreter has asked
    # for them: without this the first program of every worker process ran this mode without a single observation)
    sys._getframe().f_trace_opcodes = True
    sys.settrace(tracer)


def _run_program_body(prog, kind, conds, trace, result, ns, src):
    if kind == "func":
        try:
            rv = ns["f"](conds)
            result = ["return", repr(rv is not None)]
        except (E1, E2) as ex:
            result = ["raised", type(ex).__name__, str(ex)]
        S.events.append(("done", result))
    else:
        obj = ns["f"](conds)
        d = Driver(kind, obj)
        action = "send"
        sched = prog["sched"] or ["send"]
        for i in range(prog.get("max_steps", 60)):
            S.step = i
            st, v = d.step(action)
            trace.append([action, st, v])
            S.events.append(("step", action, st, v))
            if st == "done":
                result = v
                break
            if S.extract_at is None or ("s", i) in S.extract_at:
                observe_suspended(obj, kind, ["susp", i, v], via=d.aw if kind == "agen" else None)
            action = sched[i % len(sched)]
        else:
            S.bump("step_limit")
        S.cleanup = True
        wrs = []
        if "pure" in S.modes:
            import weakref
            wrs = [weakref.ref(obj)]
        d.cleanup()
        del obj, d
        del S.fr[:]   # the harness's own handle on the frame (whose f_back chain would keep the driver alive)
        if wrs:
            gc.collect()
            if any(w() is not None for w in wrs):
                add_obs("pure.target_not_collectable", ["end"])
            S.bump("pure.collectable_checks")
    res = {"obs": list(S.obs), "stats": dict(S.stats), "trace": trace, "result": result,
           "events": [list(e) for e in S.events]}
    if S.obs:
        res["src"] = src
    if S.sh and result is not None and kind == "func":
        res["obs"].append({"kind": "harness.leftover_shadow", "where": None, "shadow": shadow_summary()})
    return res


def handle(req):
    op = req["op"]
    if op == "g1.run":
        return run_program(req["prog"], req.get("modes", ["susp", "run", "meta"]), repeat=req.get("repeat", 1),
                           inject=req.get("inject"))
    if op == "g1.batch":
        out = []
        for prog in req["progs"]:
            res = run_program(prog, req.get("modes", ["susp", "run", "meta"]), repeat=req.get("repeat", 1))
            res.pop("trace", None)
            res.pop("events", None)
            out.append(res)
        return {"results": out}
    if op == "g1.render":
        r = R(req["prog"])
        return {"src": r.render(), "meta": {str(k): v for k, v in r.meta.items()}}
    raise AssertionError(op)
