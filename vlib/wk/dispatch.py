"""C12 (worker side): customizations bind to exactly the code that runs; every customize option works.
Pure stdlib + stackscope, Python 3.9 syntax.
"""
import functools
import sys
import types
import warnings

import stackscope
from stackscope import (PRUNE, customize, elaborate_frame, extract, extract_since, unwrap_context_generator)
from stackscope.lowlevel import IdentityDict, get_code

EXECUTED = []


# ------------------------------------------------------------------------------------ (i) towers

OBSERVE = [False]
RES = {}


def make_base():
    def base(*a, **k):
        EXECUTED.append(sys._getframe().f_code)
        if OBSERVE[0]:
            RES["st"] = extract_since(sys._getframe(), with_contexts=False)
        return "base"
    return base


class Holder:
    pass


def apply_layer(cur, layer):
    if layer == "partial":
        return functools.partial(cur, 1)
    if layer == "partial_kw":
        return functools.partial(cur, z=2)
    if layer == "wraps":
        @functools.wraps(cur)
        def w(*a, **k):
            return cur(*a, **k)
        return w
    if layer == "wraps2":
        # a decorator-produced wrapper built with update_wrapper on a lambda
        w = lambda *a, **k: cur(*a, **k)  # noqa: E731
        functools.update_wrapper(w, cur)
        return w
    if layer == "method":
        return types.MethodType(cur, Holder())
    if layer == "classmethod_attr":
        K = type("K", (), {"m": classmethod(cur)})
        return K.m
    if layer == "classmethod_inst":
        K = type("K", (), {"m": classmethod(cur)})
        return K().m
    if layer == "staticmethod_attr":
        K = type("K", (), {"m": staticmethod(cur)})
        return K.m
    raise AssertionError(layer)


def call_target(t):
    if isinstance(t, (classmethod, staticmethod)) and not callable(t):
        return t.__get__(None, Holder)()
    if isinstance(t, classmethod):
        return t.__get__(None, Holder)()
    return t()


def run_tower(req):
    obs = []
    base = make_base()
    cur = base
    for layer in req["layers"]:
        cur = apply_layer(cur, layer)
    top = req.get("top")
    if top == "classmethod_raw":
        cur = classmethod(cur)
    elif top == "staticmethod_raw":
        cur = staticmethod(cur)
    del EXECUTED[:]
    try:
        call_target(cur)
    except BaseException as ex:
        return {"harness_error": "tower %r is not callable: %r" % (req, ex)}
    if len(EXECUTED) != 1:
        return {"harness_error": "tower executed base %d times" % len(EXECUTED)}
    ran = EXECUTED[0]
    try:
        got = get_code(cur)
    except BaseException as ex:
        obs.append({"kind": "get_code_raised", "exc": repr(ex)})
        got = None
    if got is not None and got is not ran:
        obs.append({"kind": "get_code_resolves_to_other_code", "got": repr(got), "ran": repr(ran)})
    # registering through the tower must customise frames of the base function
    hit = []
    try:
        elaborate_frame.register(cur, lambda frame, nxt: hit.append(frame.pyframe.f_code) or None)
    except BaseException as ex:
        obs.append({"kind": "register_through_tower_raised", "exc": repr(ex)})
    else:
        OBSERVE[0] = True
        try:
            call_target(cur)
        finally:
            OBSERVE[0] = False
        st = RES.pop("st", None)
        if st is None or not st.frames or st.frames[0].pyframe.f_code is not ran:
            return {"harness_error": "tower: could not observe the base frame"}
        if hit[:1] != [ran]:
            obs.append({"kind": "hook_registered_through_tower_not_applied", "hit": [repr(h) for h in hit]})
    return {"obs": obs, "stats": {"depth": len(req["layers"])}, "ran": repr(ran)}


# ------------------------------------------------------------------------------------ nested names

def run_nested(req):
    """req['src'] defines `top`; req['path'] names nested functions/classes; req['getter'] is source of an
    expression that, given `top`, obtains the very function object by calling/attribute access."""
    obs = []
    ns = {}
    try:
        exec(compile(req["src"], "<c12-nested>", "exec"), ns)
    except SyntaxError:
        if "[T]" in req["src"]:
            return {"obs": [], "stats": {"depth": len(req["path"]), "syntax_not_available": 1}}   # PEP 695 before 3.12
        raise
    top = ns["top"]
    fn = eval(req["getter"], {"top": top})
    want = fn.__code__
    try:
        got = get_code(top, *req["path"])
    except BaseException as ex:
        obs.append({"kind": "get_code_raised", "exc": repr(ex), "path": req["path"]})
        got = None
    if got is not None and got is not want:
        obs.append({"kind": "nested_name_resolves_to_other_code", "got": repr(got), "want": repr(want)})
    # a name that does not exist must be refused, not silently resolved
    try:
        get_code(top, *(list(req["path"]) + ["no_such_name_zz"]))
        obs.append({"kind": "missing_nested_name_accepted"})
    except ValueError:
        pass
    except BaseException as ex:
        obs.append({"kind": "missing_nested_name_wrong_exception", "exc": repr(ex)})
    return {"obs": obs, "stats": {"depth": len(req["path"])}}


# ------------------------------------------------------------------------------------ (ii) identity, not equality

SRC_EQ = "def f():\n    x = 1\n    yield x\n"


def run_registry(req):
    """Registration sequences over code objects, two of which are equal but distinct."""
    obs = []
    fns = {}
    for name in ("A1", "A2"):
        ns = {}
        exec(compile(SRC_EQ, "<c12-eq>", "exec"), ns)
        fns[name] = ns["f"]
    ns = {}
    exec(compile("def f():\n    y = 2\n    yield y\n", "<c12-other>", "exec"), ns)
    fns["B"] = ns["f"]
    if not (fns["A1"].__code__ == fns["A2"].__code__ and fns["A1"].__code__ is not fns["A2"].__code__):
        return {"harness_error": "the two compilations are not equal-but-distinct code objects"}
    gens = {k: f() for k, f in fns.items()}
    for g in gens.values():
        next(g)
    log = []
    model = {}
    delegs = {}
    n_checks = 0
    executed_equal_pair = False
    for op in req["ops"]:
        if op[0] == "reg":
            _, which, hid, how = op

            def hook(frame, nxt, hid=hid):
                log.append(hid)
                frame.hide = True
                return None
            if how == "func":
                elaborate_frame.register(fns[which], hook)
            elif how == "code":
                elaborate_frame.register(fns[which].__code__, hook)
            elif how == "decorator":
                elaborate_frame.register(fns[which])(hook)
            elif how == "partial":
                elaborate_frame.register(functools.partial(fns[which]), hook)
            model[which] = hid
        elif op[0] == "regctx":
            _, which, hid = op
            unwrap_context_generator.register(fns[which], lambda frame, ctx, hid=hid: hid)
            model["ctx" + which] = hid
        elif op[0] == "check":
            for which in ("A1", "A2", "B"):
                del log[:]
                st = extract(gens[which], with_contexts=False)
                n_checks += 1
                want = model.get(which)
                if want is None:
                    if log or st.frames[0].hide:
                        obs.append({"kind": "hook_applied_to_unregistered_code", "which": which, "log": list(log)})
                elif log != [want] or not st.frames[0].hide:
                    obs.append({"kind": "wrong_hook_for_code", "which": which, "log": list(log), "want": want})
                if which in ("A1", "A2") and ("A1" in model) != ("A2" in model):
                    executed_equal_pair = True
                d = elaborate_frame.dispatch(st.frames[0])
                reg = elaborate_frame.registry
                if (fns[which].__code__ in reg) != (want is not None):
                    obs.append({"kind": "registry_membership", "which": which})
                wantc = model.get("ctx" + which)
                gotc = unwrap_context_generator(st.frames[0], None)
                if gotc != wantc:
                    obs.append({"kind": "wrong_unwrap_context_generator_hook", "which": which, "got": gotc, "want": wantc})
                # end to end through the contextlib glue: a manager made from this very function gets the hook registered
                # for its code (and no other); a manager that merely DELEGATES to it (`yield from`) gets the hook
                # registered for the delegating function, never the one of the function it delegates to
                from contextlib import contextmanager
                from stackscope import Context, fill_context
                direct = contextmanager(fns[which])()
                direct.__enter__()
                c1 = Context(obj=direct, is_async=False)
                fill_context(c1)
                if (c1.obj is not direct) if wantc is None else (c1.obj != wantc):
                    obs.append({"kind": "glue_applied_wrong_unwrap_context_generator_hook", "which": which,
                                "got": repr(c1.obj)[:60], "want": wantc})
                if which not in delegs:
                    dns = {"fn": fns[which]}
                    # a code object of its own per delegating function (registrations are per code object)
                    exec(compile("def deleg():\n    got = yield from fn()\n    return got\n",
                                 "<c12-deleg-%s>" % which, "exec"), dns)
                    deleg = dns["deleg"]
                    unwrap_context_generator.register(deleg, lambda frame, ctx, which=which: "deleg-" + which)
                    delegs[which] = deleg
                dm = contextmanager(delegs[which])()
                dm.__enter__()
                c2 = Context(obj=dm, is_async=False)
                fill_context(c2)
                if c2.obj != "deleg-" + which:
                    obs.append({"kind": "delegating_manager_got_another_codes_hook", "which": which,
                                "got": repr(c2.obj)[:60], "want": "deleg-" + which})
                for m in (direct, dm):
                    try:
                        m.gen.close()
                    except BaseException:
                        pass
    for g in gens.values():
        g.close()
    return {"obs": obs, "stats": {"checks": n_checks, "equal_pair_distinguished": executed_equal_pair}}


# ------------------------------------------------------------------------------------ (iii) customize options

def _replacement_gen():
    yield


def run_customize(req):
    """One combination of hide x hide_line x prune x elaborate-kind x form x nested-name."""
    obs = []
    hide, hide_line, prune = req["hide"], req["hide_line"], req["prune"]
    ek, form = req["elaborate"], req["form"]
    repl = _replacement_gen()
    next(repl)
    calls = []
    if ek == "none":
        elab = None
    elif ek == "returns_none":
        def elab(frame, nxt):
            calls.append("e")
            return None
    elif ek == "returns_prune":
        def elab(frame, nxt):
            calls.append("e")
            return PRUNE
    elif ek == "returns_empty_list":
        def elab(frame, nxt):
            calls.append("e")
            return []
    elif ek == "returns_insert":
        def elab(frame, nxt):
            calls.append("e")
            return [repl, nxt]
    else:
        def elab(frame, nxt):
            calls.append("e")
            return repl
    if elab is not None and req.get("callable_kind") == "falsy_object":
        # the elaborate callback is a callable OBJECT that is falsy (a container-like handler registry that is empty,
        # say): it is still the callback
        class FalsyCallable:
            def __init__(self, fn):
                self.fn = fn

            def __call__(self, frame, nxt):
                return self.fn(frame, nxt)

            def __len__(self):
                return 0
        elab = FalsyCallable(elab)
    res = {}

    def inner():
        res["st"] = extract_since(res["frame"])

    src_plain = "def outer(inner, res, sys):\n    res['frame'] = sys._getframe()\n    inner()\n    return 1\n"
    src_nested = ("def factory():\n    def outer(inner, res, sys):\n        res['frame'] = sys._getframe()\n"
                  "        inner()\n        return 1\n    return outer\n")
    ns = {}
    kw = dict(hide=hide, hide_line=hide_line, prune=prune, elaborate=elab)
    if form == "direct":
        exec(compile(src_plain, "<c12-cust>", "exec"), ns)
        outer = ns["outer"]
        ret = customize(outer, **kw)
        if ret is not outer:
            obs.append({"kind": "customize_did_not_return_target"})
    elif form == "decorator":
        exec(compile(src_plain, "<c12-cust>", "exec"), ns)
        deco = customize(**kw)
        outer = deco(ns["outer"])
        if outer is not ns["outer"]:
            obs.append({"kind": "decorator_did_not_return_function_unchanged"})
    elif form == "nested":
        exec(compile(src_nested, "<c12-cust>", "exec"), ns)
        customize(ns["factory"], "outer", **kw)
        outer = ns["factory"]()
    else:
        raise AssertionError(form)
    outer(inner, res, sys)
    st = res["st"]
    if st.error is not None:
        obs.append({"kind": "error", "exc": repr(st.error)})
    f0 = st.frames[0]
    if f0.pyframe is not res["frame"]:
        return {"harness_error": "first frame is not the customized function's frame"}
    if bool(f0.hide) != hide:
        obs.append({"kind": "hide_option", "got": f0.hide, "want": hide})
    if bool(f0.hide_line) != hide_line:
        obs.append({"kind": "hide_line_option", "got": f0.hide_line, "want": hide_line})
    if hide_line and f0.linetext != "":
        obs.append({"kind": "hide_line_has_no_effect_on_linetext"})
    rest = [f.funcname for f in st.frames[1:]]
    if ek == "returns_repl":
        want_rest = ["_replacement_gen"]
    elif ek in ("returns_prune", "returns_empty_list"):
        want_rest = []         # the hook's own answer: registered "as an elaborate_frame hook", whatever `prune` says
    elif ek == "returns_insert":
        want_rest = None
        if rest[:2] != ["_replacement_gen", "inner"]:
            obs.append({"kind": "insertion_by_customize_elaborate", "rest": rest[:3]})
        rest = rest[1:]
    elif prune:
        want_rest = []
    else:
        want_rest = None  # callees present: inner, then stackscope-free tail
    if want_rest is None:
        if not rest or rest[0] != "inner":
            obs.append({"kind": "callees_missing_without_prune", "rest": rest})
    elif rest != want_rest:
        obs.append({"kind": "callees_after_customized_frame", "rest": rest, "want": want_rest})
    if (ek != "none") != (calls == ["e"]):
        obs.append({"kind": "elaborate_callback_invocations", "calls": calls})
    repl.close()
    return {"obs": obs, "stats": {}}


# ------------------------------------------------------------------------------------ (iv) IdentityDict

DEFAULTS = [None, 0, False, "", (), "DEFAULT", Ellipsis, NotImplemented]


class EqAll:
    """instances are all == each other, with equal hashes"""

    def __init__(self, tag):
        self.tag = tag

    def __eq__(self, other):
        return isinstance(other, EqAll)

    def __hash__(self):
        return 7

    def __repr__(self):
        return "EqAll(%s)" % self.tag


class Mut:
    """hash changes when .v changes"""

    def __init__(self, v):
        self.v = v

    def __eq__(self, other):
        return isinstance(other, Mut) and other.v == self.v

    def __hash__(self):
        return hash(self.v)

    def __repr__(self):
        return "Mut(%s)" % self.v


def run_identitydict(req):
    keys = [EqAll(0), EqAll(1), (1, 2), tuple([1, 2]), [9], [9], Mut(1), Mut(1), "s", "".join(["s"]), 3.0, 3]
    d = IdentityDict()
    model = []   # list of [key, value] in insertion order, identity comparison

    def find(k):
        for i, (kk, _v) in enumerate(model):
            if kk is k:
                return i
        return None

    obs = []
    nops = 0
    for op in req["ops"]:
        nops += 1
        t = op[0]
        k = keys[op[1] % len(keys)] if len(op) > 1 and isinstance(op[1], int) else None
        try:
            if t == "set":
                d[k] = op[2]
                i = find(k)
                if i is None:
                    model.append([k, op[2]])
                else:
                    model[i][1] = op[2]
            elif t == "get":
                i = find(k)
                try:
                    v = d[k]
                    if i is None or model[i][1] != v:
                        obs.append({"kind": "get", "op": op, "got": v})
                except KeyError:
                    if i is not None:
                        obs.append({"kind": "get_missing", "op": op})
            elif t == "del":
                i = find(k)
                try:
                    del d[k]
                    if i is None:
                        obs.append({"kind": "del_absent_succeeded", "op": op})
                    else:
                        model.pop(i)
                except KeyError:
                    if i is not None:
                        obs.append({"kind": "del_present_failed", "op": op})
            elif t == "getdef":
                # Mapping.get(key, default) with defaults that are falsy / None / the "no default" look-alikes
                i = find(k)
                dflt = DEFAULTS[op[2] % len(DEFAULTS)]
                try:
                    v = d.get(k, dflt)
                except BaseException as ex:
                    obs.append({"kind": "get_with_default_raised", "op": op, "exc": repr(ex)})
                    continue
                if (v is not dflt) if i is None else (v != model[i][1]):
                    obs.append({"kind": "get_with_default", "op": op, "got": repr(v)})
            elif t == "pop":
                i = find(k)
                dflt = DEFAULTS[op[2] % len(DEFAULTS)] if len(op) > 2 else "DEFAULT"
                try:
                    v = d.pop(k, dflt)
                except BaseException as ex:
                    obs.append({"kind": "pop_with_default_raised", "op": op, "default": repr(dflt), "exc": repr(ex)})
                    if i is not None:
                        model.pop(i)
                    continue
                if i is None:
                    if v is not dflt:
                        obs.append({"kind": "pop_absent", "op": op, "got": v})
                else:
                    if v != model[i][1]:
                        obs.append({"kind": "pop_value", "op": op, "got": v})
                    model.pop(i)
            elif t == "pop_nodefault":
                i = find(k)
                try:
                    v = d.pop(k)
                    if i is None or v != model[i][1]:
                        obs.append({"kind": "pop_nodefault", "op": op})
                    else:
                        model.pop(i)
                except KeyError:
                    if i is not None:
                        obs.append({"kind": "pop_nodefault_raised", "op": op})
            elif t == "setdefault":
                i = find(k)
                v = d.setdefault(k, op[2])
                if i is None:
                    model.append([k, op[2]])
                    if v != op[2]:
                        obs.append({"kind": "setdefault_new", "op": op, "got": v})
                elif v != model[i][1]:
                    obs.append({"kind": "setdefault_existing", "op": op, "got": v})
            elif t == "popitem":
                try:
                    kk, v = d.popitem()
                    if not model or model[-1][0] is not kk or model[-1][1] != v:
                        obs.append({"kind": "popitem", "got": [repr(kk), v]})
                    else:
                        model.pop()
                except KeyError:
                    if model:
                        obs.append({"kind": "popitem_raised_nonempty"})
            elif t == "mutate":
                keys[6].v += 1   # changes the hash of a key that may be stored
            elif t == "clear":
                d.clear()
                del model[:]
            elif t == "contains":
                if (k in d) != (find(k) is not None):
                    obs.append({"kind": "contains", "op": op})
            elif t == "copy_eq":
                d2 = IdentityDict(list(d.items()))
                if not (d2 == d) or len(d2) != len(d):
                    obs.append({"kind": "copy_not_equal"})
                repr(d)
        except BaseException as ex:
            obs.append({"kind": "raised", "op": op, "exc": repr(ex)})
        # invariant after every step
        if len(d) != len(model):
            obs.append({"kind": "len", "op": op, "got": len(d), "want": len(model)})
        ks = list(d)
        if len(ks) != len(model) or any(a is not b[0] for a, b in zip(ks, model)):
            obs.append({"kind": "iteration_order_or_identity", "op": op})
        if [v for v in d.values()] != [m[1] for m in model]:
            obs.append({"kind": "values", "op": op})
        if obs:
            break
    return {"obs": obs, "stats": {"ops": nops, "final_len": len(model)}}


def handle(req):
    op = req["op"]
    if op == "dispatch.tower":
        return run_tower(req)
    if op == "dispatch.nested":
        return run_nested(req)
    if op == "dispatch.registry":
        return run_registry(req)
    if op == "dispatch.customize":
        return run_customize(req)
    if op == "dispatch.identitydict":
        return run_identitydict(req)
    raise AssertionError(op)
