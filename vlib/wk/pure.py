"""C06 (worker side): extraction is a pure observation.  Metamorphic twin runs of G1 programs and G2 chains
(observed at a chosen subset of points vs never observed), repeatability and retention checks (in g1.py).
"""
import gc
import sys
import warnings

from stackscope.lowlevel import set_trickery_enabled

from vlib.wk import chains, g1


def _ambient():
    """interpreter-wide settings an observer has no business changing"""
    import threading
    return {"gc.isenabled": gc.isenabled(), "gc.threshold": gc.get_threshold(), "gc.debug": gc.get_debug(),
            "switchinterval": sys.getswitchinterval(), "trace": sys.gettrace(), "profile": sys.getprofile(),
            "recursionlimit": sys.getrecursionlimit(), "warnings.filters": len(warnings.filters),
            "threads": threading.active_count(), "tracebacklimit": getattr(sys, "tracebacklimit", None),
            "excepthook": sys.excepthook, "asyncgen_hooks": tuple(sys.get_asyncgen_hooks())}


def run_twin(req):
    gc_was = gc.isenabled()
    if req.get("gc_off"):
        gc.disable()      # a configuration some applications run in (manual collection)
    try:
        before = _ambient()
        res = _run_twin(req)
        after = _ambient()
    finally:
        if gc_was:
            gc.enable()
        else:
            gc.disable()
    diff = sorted(k for k in before if before[k] != after[k])
    if diff and "obs" in res:
        res["obs"].insert(0, {"kind": "pure.interpreter_wide_state_changed", "which": diff,
                              "before": repr([before[k] for k in diff])[:200], "after": repr([after[k] for k in diff])[:200]})
    if "stats" in res:
        res["stats"]["gc_off"] = 1 if req.get("gc_off") else 0
    return res


def _run_twin(req):
    prog = req["prog"]
    points = req["points"]
    trick = req.get("trickery", True)
    obs = []
    set_trickery_enabled(True if trick else False)
    try:
        modes = ["susp", "run", "pure"]
        inject = None
        if trick and req.get("fail_trickery"):
            # additionally make the trickery analysis fail (at up to 12 points of one suspension point) and look for
            # anything of the target that stays referenced afterwards
            modes.append("inject")
            inject = [1, 12, req["fail_trickery"]]
        r1 = g1.run_program(prog, modes, extract_at=points, repeat=req.get("repeat", 1), inject=inject)
        ev1 = r1["events"]
        st1 = r1["stats"]
    finally:
        set_trickery_enabled(None)
    r0 = g1.run_program(prog, [], extract_at=[])
    ev0 = r0["events"]
    if ev1 != ev0:
        k = 0
        while k < min(len(ev1), len(ev0)) and ev1[k] == ev0[k]:
            k += 1
        obs.append({"kind": "pure.behaviour_differs_from_unobserved_twin", "first_difference_at": k,
                    "observed": ev1[k:k + 3], "unobserved": ev0[k:k + 3]})
    if r1["result"] != r0["result"]:
        obs.append({"kind": "pure.result_differs", "observed": r1["result"], "unobserved": r0["result"]})
    for o in r1["obs"]:
        if o["kind"].startswith("pure.") or o["kind"].endswith(".raised"):
            obs.append(o)
    stats = {"events": len(ev0), "extraction_points_hit": st1.get("susp.checks", 0) + st1.get("run.checks", 0),
             "points_nonempty": st1.get("susp.nonempty", 0) + st1.get("run.nonempty", 0),
             "retention_checks": st1.get("pure.retention_checks", 0),
             "collectable_checks": st1.get("pure.collectable_checks", 0),
             "failed_trickery_retention_checks": st1.get("inject.retention_checks", 0),
             "injected_trickery_failures": st1.get("inject.warned_and_fell_back", 0),
             "resumed_after_extraction": 1 if (st1.get("susp.checks", 0) and len(r1["trace"]) > 1) else 0}
    res = {"obs": obs[:6], "stats": stats}
    if obs:
        res["src"] = r1.get("src") or g1.R(prog).render()
    return res


def run_chain_twin(req):
    """G2 chain: extract (n times) at the j-th suspension, then resume to completion; same values and the same
    end as the unobserved twin."""
    ir = req["ir"]
    obs = []

    def play(observe):
        b, x = chains.build(ir)
        d = chains.Drv(x, ir["outer"])
        events = []
        for step in range(60):
            try:
                v = d.send()
                events.append(["yield", v])
            except StopIteration as si:
                events.append(["stop", repr(si.value)])
                if ir["outer"] == "agen":
                    # the outer async generator has yielded; ask for the next item
                    d = chains.Drv.__new__(chains.Drv)
                    d.x, d.kind = x, "agen"
                    d.aw = x.asend(None)
                    continue
                break
            except StopAsyncIteration:
                events.append(["stop_async"])
                break
            except BaseException as ex:
                events.append(["raised", type(ex).__name__])
                break
            if observe and step in req["steps"]:
                import stackscope
                for _ in range(req.get("repeat", 1)):
                    st = stackscope.extract(x)
                    try:      # reading a result is not a change of the target
                        str(st)
                        st.format_flat(show_contexts=True)
                        st.as_stdlib_summary(show_contexts=True)
                    except Exception:
                        pass
                    st2 = stackscope.extract(x)
                    if st.error is None and st2.error is None and not (st == st2):
                        obs.append({"kind": "pure.consecutive_extractions_differ", "step": step})
                    del st, st2
            if ir["end"] == "fut" and step > 3:
                events.append(["cut"])
                break
        return events

    with warnings.catch_warnings():
        warnings.simplefilter("ignore")
        e1 = play(True)
        e0 = play(False)
    if e1 != e0:
        obs.append({"kind": "pure.chain_behaviour_differs_from_unobserved_twin", "observed": e1[:6], "unobserved": e0[:6]})
    return {"obs": obs[:4], "stats": {"events": len(e0), "extraction_points_hit": len([s for s in req["steps"] if s < len(e0)]),
                                      "points_nonempty": 0, "retention_checks": 0, "collectable_checks": 0,
                                      "resumed_after_extraction": 1 if len(e0) > 1 else 0}}


def run_c_driven_agen(req):
    """a RUNNING async generator whose frame has no Python caller - it is driven directly by a C callable, here the send
    method of its asend() awaitable used as a thread's function - observed from inside itself, several hundred times, from a
    class-based awaitable's __next__ and through a functools.partial (call sites the adaptive interpreter cannot specialise).
    The interpreter never crashes; the generator's behaviour is what it is un-observed."""
    import _thread
    import functools
    import threading
    import stackscope
    n = req.get("iterations", 300)
    results = {}
    for observed in (True, False):
        done = threading.Event()
        log = []
        box = {}

        class Aw:
            def __await__(self):
                return self

            def __iter__(self):
                return self

            def __next__(self):
                if observed:
                    st = stackscope.extract(box["ag"])
                    log.append(("aw", len(st.frames) > 0))
                else:
                    log.append(("aw", True))
                raise StopIteration

        def probe():
            if observed:
                st = stackscope.extract(box["ag"])
                log.append(("call", len(st.frames) > 0))
            else:
                log.append(("call", True))

        call_probe = functools.partial(probe)
        # (compiled afresh for each run: the interpreter's per-instruction caches live in the code object, and what matters
        # here happens while they are still adapting)
        ns = {"Aw": Aw, "call_probe": call_probe, "done": done, "n": n}
        exec(compile("async def agen_fn():\n    try:\n        for _i in range(n):\n            await Aw()\n"
                     "            call_probe()\n    finally:\n        done.set()\n    yield 1\n",
                     "<c06-c-driven-%s>" % observed, "exec"), ns)
        ag = ns["agen_fn"]()
        box["ag"] = ag

        # (the awaitable's send method itself is the thread function: no Python frame above the generator's)
        _thread.start_new_thread(ag.asend(None).send, (None,))
        if not done.wait(120):
            return {"harness_error": "the generator's thread did not finish"}
        results[observed] = list(log)
        try:
            ag.aclose().send(None)
        except BaseException:
            pass
    obs = []
    if results[True] != results[False]:
        diff = [i for i, (a, b) in enumerate(zip(results[True], results[False])) if a != b][:3]
        obs.append({"kind": "pure.running_async_generator_without_python_caller", "observed_len": len(results[True]),
                    "unobserved_len": len(results[False]), "first_differences": diff,
                    "detail": "an extraction made from inside the running generator returned no frames / the run differs"})
    return {"obs": obs, "stats": {"extractions": len(results[True])}}


def handle(req):
    op = req["op"]
    if op == "pure.c_driven_agen":
        return run_c_driven_agen(req)
    if op == "pure.twin":
        return run_twin(req)
    if op == "pure.chain":
        return run_chain_twin(req)
    raise AssertionError(op)
