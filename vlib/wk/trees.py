"""G4: Stack / Frame / Context trees built with the public constructors over a pool of real frames
(worker side).  Pure stdlib, Python 3.9 syntax.  The pool layout (file names, line numbers, line texts)
is a pure function of the index, so the driver-side oracle knows it without asking.

Ops: trees.c18 (format in all 8 option combinations), trees.c19 (stdlib summaries, pickle, format_flat)
"""
import gc
import linecache
import pickle
import sys
import types

import stackscope
from stackscope import Context, Frame, Stack

if sys.version_info < (3, 11):
    from exceptiongroup import ExceptionGroup  # the shim on 3.9/3.10

from vlib.wk.treepool import NPOOL, FRAME_LINE, pool_filename, pool_source, pool_line  # noqa: E402

POOL = []


def init():
    if POOL:
        return
    for i in range(NPOOL):
        src = pool_source(i)
        fn = pool_filename(i)
        linecache.cache[fn] = (len(src), None, src.splitlines(True), fn)
        # (one pool function lives in a module whose name has line breaks in it: names are free text too)
        ns = {"__name__": "trees\nmod\rX" if i == 5 else "treesmod"}
        exec(compile(src, fn, "exec"), ns)
        g = ns["fn%d" % i]()
        next(g)
        POOL.append(g)


class Obj:
    def __init__(self, tag):
        self.tag = tag

    def __repr__(self):
        return "Obj_%s" % self.tag


def _raise_through(exc, depth):
    if depth:
        _raise_through(exc, depth - 1)
    raise exc


def _raised(exc, depth=2):
    """the exception after it has really been raised: it has a traceback whose entries are two or three physical lines"""
    try:
        _raise_through(exc, depth)
    except BaseException as ex:
        return ex


ML_TEXT = [False]
UNI_TEXT = [False]


class UniRepr:
    """a root / leaf whose repr is not ASCII (task names, file names, user data)"""

    def __init__(self, tok):
        self.tok = tok

    def __repr__(self):
        return "<%s na\u00efve \u2192 \u65e5\u672c\u8a9e \U0001f600>" % self.tok


class MultiRepr:
    """an object whose repr spans several lines (numpy arrays and the like)"""

    def __init__(self, tok):
        self.tok = tok

    def __repr__(self):
        return "<%s [[1, 2],\n       [3, 4]]\r\n>\rtail" % self.tok


class FalsyRepr:
    """a root / leaf that is falsy (an empty container-like task group, a not yet started greenlet): still a root"""

    def __init__(self, tok):
        self.tok = tok

    def __len__(self):
        return 0

    def __repr__(self):
        return "<falsy %s>" % self.tok


def _text(tok, as_obj):
    if tok is not None and UNI_TEXT[0]:
        return UniRepr(tok) if as_obj else "%s(caf\u00e9 \u2192 \u65e5\u672c)" % tok
    if tok is not None and as_obj and not ML_TEXT[0] and tok[-1] in "02468":
        return FalsyRepr(tok)
    if tok is None or not ML_TEXT[0]:
        return tok
    if as_obj:
        return MultiRepr(tok)
    return "%s(first,\n  second\r)" % tok


def build_stack(s):
    err = None
    kind = s.get("error")
    if kind == "single":
        err = ValueError("er1")
    elif kind == "group":
        err = ExceptionGroup("erg", [ValueError("er1"), KeyError("er2")])
    elif kind == "raised":
        err = _raised(ValueError("er1"))
    elif kind == "multiline":
        # (line breaks of every kind: only "\n" may end an entry, and the tree must stay readable)
        err = ValueError("er1 first line\nsecond line\n\nfourth line\rfifth\x0csixth\x1cseventh" + ("\u2028eighth\x85ninth" if UNI_TEXT[0] else ""))
    elif kind == "group_raised":
        err = _raised(ExceptionGroup("erg", [_raised(ValueError("er1\nmore"), 1), KeyError("er2")]))
    elif kind == "chained":
        try:
            try:
                _raise_through(KeyError("cause"), 1)
            except KeyError as inner:
                raise ValueError("er1") from inner
        except ValueError as ex:
            err = ex
    return Stack(root=_text(s.get("root"), True), frames=[build_frame(f) for f in s["frames"]],
                 leaf=_text(s.get("leaf"), True), error=err)


def build_frame(f):
    kw = {}
    if f.get("lineno") == -1:
        if sys.version_info >= (3, 10):
            kw["lineno"] = None       # what Frame.__post_init__ copies from a frame that is between lines
    elif f.get("lineno") is not None:
        kw["lineno"] = f["lineno"]
    return Frame(pyframe=POOL[f["fn"]].gi_frame, contexts=[build_ctx(c) for c in f.get("contexts", [])],
                 hide=f.get("hide", False), hide_line=f.get("hide_line", False), **kw)


MLNamed = type("Obj\nK\rL", (), {"__repr__": lambda self: "Obj_k"})   # a manager type whose NAME spans lines


def build_ctx(c):
    obj = None
    if c.get("obj") == "int":
        obj = 7
    elif c.get("obj") == "str":
        obj = "s"
    elif c.get("obj") == "obj":
        obj = MLNamed() if ML_TEXT[0] else Obj("k")
    varname = c.get("varname")
    if varname is not None and ML_TEXT[0]:
        varname = "%s[\n 0]" % varname      # (an `as` target written over two lines, kept verbatim by whoever built the Context)
    ctx = Context(obj=obj, is_async=c.get("is_async", False), is_exiting=c.get("is_exiting", False),
                  varname=varname, start_line=c.get("start_line"), description=_text(c.get("description"), False),
                  hide=c.get("hide", False))
    if c.get("inner") is not None:
        ctx.inner_stack = build_stack(c["inner"])
    kids = []
    for ch in c.get("children", []):
        kids.append(build_stack(ch) if "frames" in ch else build_ctx(ch))
    ctx.children = kids
    return ctx


def error_messages(err):
    """the first line of the message of every exception reachable from a Stack.error through __cause__, __context__ and
    the members of exception groups: a rendering of the error that is complete mentions every one of them"""
    seen, out, todo = set(), [], [err]
    while todo:
        e = todo.pop()
        if e is None or id(e) in seen:
            continue
        seen.add(id(e))
        msg = (str(e.args[0]) if e.args else "").splitlines()
        if msg and msg[0]:
            out.append(msg[0])
        todo.extend([e.__cause__, e.__context__ if not e.__suppress_context__ else None])
        todo.extend(getattr(e, "exceptions", ()) or ())
    return sorted(set(out))


def combos():
    for a in (False, True):
        for sc in (False, True):
            for sh in (False, True):
                yield a, sc, sh


def run_c18(req):
    init()
    ML_TEXT[0] = bool(req["tree"].get("ml_text"))
    UNI_TEXT[0] = bool(req["tree"].get("uni_text"))
    try:
        st = build_stack(req["tree"])
    finally:
        ML_TEXT[0] = False
        UNI_TEXT[0] = False
    out = {"fmt": {}, "raised": None}
    try:
        for a, sc, sh in combos():
            out["fmt"]["%d%d%d" % (a, sc, sh)] = st.format(ascii_only=a, show_contexts=sc, show_hidden_frames=sh)
        out["str"] = str(st)
        out["default"] = st.format()
        out["error_messages"] = error_messages(st.error)
        # Frame.format / Context.format / str() of parts
        parts = []
        for f in st.frames[:2]:
            parts.append({"what": "frame", "fmt": f.format(), "str": str(f)})
            for c in f.contexts[:2]:
                parts.append({"what": "context", "fmt": c.format(), "str": str(c)})
        out["parts"] = parts
    except BaseException as ex:
        import traceback
        out["raised"] = traceback.format_exc()[-1500:]
    return out


def reach_frames(root):
    """Is any frame object reachable from root (gc.get_referents closure, bounded)?"""
    seen = set()
    todo = [root]
    n = 0
    while todo and n < 20000:
        o = todo.pop()
        if id(o) in seen:
            continue
        seen.add(id(o))
        n += 1
        if isinstance(o, types.FrameType):
            return True
        if isinstance(o, (types.ModuleType, type, types.FunctionType, types.CodeType)):
            continue
        todo.extend(gc.get_referents(o))
    return False


def summ_list(s):
    out = []
    for fs in s:
        out.append([fs.filename, fs.lineno, fs.name, fs.line, None if fs.locals is None else sorted(fs.locals)])
    return out


def run_c19(req):
    import sys
    tbl = req["tree"].get("tblimit")
    if tbl is None:
        return _run_c19(req)
    # an ambient interpreter setting that truncates tracebacks the standard library EXTRACTS; a summary built from
    # the frames stackscope already has must not depend on it
    had = hasattr(sys, "tracebacklimit")
    old = getattr(sys, "tracebacklimit", None)
    sys.tracebacklimit = tbl
    try:
        return _run_c19(req)
    finally:
        if had:
            sys.tracebacklimit = old
        else:
            del sys.tracebacklimit


def _run_c19(req):
    init()
    st = build_stack(req["tree"])
    out = {"summ": {}, "raised": None, "problems": []}
    try:
        for sc in (False, True):
            for sh in (False, True):
                for cl in (False, True):
                    s = st.as_stdlib_summary(show_contexts=sc, show_hidden_frames=sh, capture_locals=cl)
                    key = "%d%d%d" % (sc, sh, cl)
                    out["summ"][key] = summ_list(s)
                    if not isinstance(s, __import__("traceback").StackSummary):
                        out["problems"].append("not a StackSummary for " + key)
                    try:
                        back = pickle.loads(pickle.dumps(s))
                        if list(back) != list(s) or summ_list(back) != summ_list(s):
                            out["problems"].append("pickle round trip differs for " + key)
                    except BaseException as ex:
                        out["problems"].append("pickle failed for %s: %r" % (key, ex))
                    if reach_frames(s):
                        out["problems"].append("a frame object is reachable from the summary for " + key)
        out["default"] = summ_list(st.as_stdlib_summary())
        out["flat"] = {}
        for sc in (False, True):
            out["flat"]["%d" % sc] = {
                "flat": st.format_flat(show_contexts=sc),
                "summ_fmt": st.as_stdlib_summary(show_contexts=sc).format() if st.frames else [],
            }
        out["flat_default"] = st.format_flat()
        out["error_messages"] = error_messages(st.error)
        # per-frame methods
        fr = []
        for f in st.frames[:3]:
            one = f.as_stdlib_summary()
            withc = list(f.as_stdlib_summary_with_contexts())
            fr.append({"one": summ_list([one]), "with": summ_list(withc)})
        out["frames"] = fr
    except BaseException:
        import traceback
        out["raised"] = traceback.format_exc()[-1500:]
    return out


def handle(req):
    op = req["op"]
    if op == "trees.c18":
        return run_c18(req)
    if op == "trees.c19":
        return run_c19(req)
    raise AssertionError(op)
