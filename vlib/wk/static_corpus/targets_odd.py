# Never imported: compiled by the static legs (vlib/wk/static.py) next to the standard library's files, for `as` targets
# that the standard library does not happen to contain.  Must stay valid syntax on 3.9.


class Base:
    pass


class K(Base):
    def infinite_constants(self, cm, d):
        with cm as d[1e999]:
            pass
        with cm as d[-1e999]:
            pass
        with cm as d[1e999j]:
            pass
        with cm as d[1e999].x:
            pass

    def ellipsis_inside_constants(self, cm, arr):
        with cm as arr[...]:
            pass
        with cm as arr[..., 0]:
            pass
        with cm as arr[0, ...]:
            pass
        with cm as arr[1, (..., 2)]:
            pass

    def through_super(self, cm, a):
        with cm as super().a.b:
            pass
        with cm as super(K, self).a.b:
            pass
        with cm as super().m(a).y:
            pass
        with cm as super().d[0]:
            pass
        with cm as (super().p, super().q):
            pass

    async def through_super_async(self, cm):
        async with cm as super().a.b:
            pass
