"""C15 (worker side, needs greenlet / greenback / trio: the 3.12 venv only): greenlet stacks in every
lifecycle state seen from every vantage point, and greenback sync/async bridges.
"""
import collections.abc
import sys
import threading
import warnings

import stackscope
from stackscope import extract, extract_outermost

import greenlet

HERE = __file__


# ------------------------------------------------------------------------------------ greenlet chains

class World:
    def __init__(self, ir):
        self.ir = ir
        self.shadow = {}      # greenlet index (or "sib") -> list of frames, outermost first
        self.glets = {}
        self.main = greenlet.getcurrent()
        self.results = {}
        self.obs = []

    def calls(self, key, depth, then):
        """`depth` nested plain calls recorded in shadow[key], then `then()` at the innermost level."""
        self.shadow.setdefault(key, []).append(sys._getframe())
        try:
            if depth <= 0:
                return then()
            return self.calls(key, depth - 1, then)
        finally:
            pass


def _frames(st):
    return [f.pyframe for f in st.frames]


def check_target(w, key, who, extra_tail=None):
    """extract(glet) must be exactly shadow[key] (+ extra_tail for the current greenlet)."""
    g = w.glets[key]
    with warnings.catch_warnings(record=True) as ws:
        warnings.simplefilter("always")
        try:
            st = extract(g, with_contexts=False)
        except BaseException as ex:
            w.obs.append({"kind": "raised", "who": who, "target": key, "exc": repr(ex)})
            return
    exp = list(w.shadow.get(key, []))
    if extra_tail is not None:
        exp += list(extra_tail) + [sys._getframe()]   # the current greenlet: up to the caller of extract()
    got = _frames(st)
    if got != exp or st.error is not None or ws:
        w.obs.append({"kind": "greenlet_frames", "who": who, "target": key, "got": [f.f_code.co_name for f in got],
                      "exp": [f.f_code.co_name for f in exp], "same_len": len(got) == len(exp),
                      "error": repr(st.error), "warnings": [str(x.message)[:100] for x in ws]})
        return
    if st.root is not g:
        w.obs.append({"kind": "root", "who": who, "target": key})
    # C16 for greenlets: extract_outermost agrees with extract
    try:
        fo = extract_outermost(g, with_contexts=False)
        if not exp or fo.pyframe is not exp[0]:
            w.obs.append({"kind": "outermost", "who": who, "target": key})
    except RuntimeError:
        if exp:
            w.obs.append({"kind": "outermost_raised", "who": who, "target": key})
    w.results[(who, key)] = len(exp)


def observe_from_inside(w, me):
    """Runs in the innermost greenlet `me`, at its innermost call level."""
    outer_fr = sys._getframe()

    def obs():
        fr = sys._getframe()
        n = len(w.ir["chain"])
        for k in range(n):
            if k == me:
                check_target(w, k, "self", extra_tail=[outer_fr, fr])
            elif k < me:
                check_target(w, k, "descendant" if me - k > 1 else "child")
        if "sib" in w.glets:
            check_target(w, "sib", "unrelated")
        for key in ("unstarted", "dead", "frameless"):
            if key in w.glets:
                check_target(w, key, "inside:" + key)
    obs()


class GletAlwaysFalsy(greenlet.greenlet):
    """a subclass with a truth value of its own (gevent's Greenlet has one): what state a greenlet is in is not for its
    __bool__ to say"""

    def __bool__(self):
        return False


class GletAlwaysTruthy(greenlet.greenlet):
    def __bool__(self):
        return True


GLET_CLASSES = {"plain": greenlet.greenlet, "falsy": GletAlwaysFalsy, "truthy": GletAlwaysTruthy}


def run_chain(req):
    ir = req["ir"]
    GL = GLET_CLASSES[ir.get("glet_class", "plain")]
    w = World(ir)
    chain = ir["chain"]
    n = len(chain)

    def body(k):
        def run():
            w.shadow.setdefault(k, []).append(sys._getframe())

            def innermost():
                w.shadow[k].append(sys._getframe())
                if k + 1 < n:
                    g = GL(body(k + 1))   # parent = the current greenlet
                    w.glets[k + 1] = g
                    g.switch()
                else:
                    if ir.get("inside", True):
                        observe_from_inside(w, k)
                    w.main.switch("parked")
                return None
            return w.calls(k, chain[k], innermost)
        return run

    if ir.get("sibling"):
        def sib_body():
            w.shadow.setdefault("sib", []).append(sys._getframe())

            def park():
                w.shadow["sib"].append(sys._getframe())
                return w.main.switch("sib-parked")
            return w.calls("sib", ir["sibling"] - 1, park)
        s = GL(sib_body)
        w.glets["sib"] = s
        s.switch()
    w.glets["unstarted"] = GL(lambda: None)
    w.shadow["unstarted"] = []
    # started and suspended, but without a single Python frame of its own: its run callable is implemented in C (here
    # the bound switch of the main greenlet - a relay)
    fl = GL(w.main.switch)
    fl.switch()
    w.glets["frameless"] = fl
    w.shadow["frameless"] = []
    d = GL(lambda: 1)
    d.switch()
    w.glets["dead"] = d
    w.shadow["dead"] = []
    g0 = GL(body(0))
    w.glets[0] = g0
    g0.switch()
    # everything is suspended now; look from the main greenlet
    for k in range(n):
        check_target(w, k, "main")
    if "sib" in w.glets:
        check_target(w, "sib", "main")
    check_target(w, "unstarted", "main")
    check_target(w, "dead", "main")
    check_target(w, "frameless", "main")
    # the main greenlet itself, from itself: its own portion of the running stack = the whole thread stack here
    here = sys._getframe()
    st = extract(w.main, with_contexts=False)
    got = _frames(st)
    if not got or got[-1] is not here or st.error is not None:
        w.obs.append({"kind": "main_greenlet_current", "n": len(got), "error": repr(st.error)})
    # teardown: kill the suspended greenlets, innermost first
    for key in sorted([k for k in w.glets if isinstance(k, int)], reverse=True) + ["sib", "frameless"]:
        g = w.glets.get(key)
        if g is not None and g:
            try:
                g.throw(greenlet.GreenletExit)
            except BaseException:
                pass
    return {"obs": w.obs[:6], "stats": {"observations": len(w.results), "from_descendant": sum(
        1 for (who, _k) in w.results if who in ("descendant", "child")), "glets": n}}


def run_orphan(req):
    """A greenlet asks for its OWN stack while its immediate parent is dead or has never been started (the parent
    created it and returned, or it was created with an unstarted parent): exactly its own portion, as always."""
    how = req["how"]          # dead | unstarted | dead_below_live
    depth = req.get("depth", 2)
    w = World({"chain": []})
    box = {}

    def child_run():
        def innermost():
            outer_fr = sys._getframe()

            def obs():
                check_target(w, "child", "self-with-%s-parent" % how, extra_tail=[outer_fr, sys._getframe()])
            obs()
            return "done"
        w.shadow.setdefault("child", []).append(sys._getframe())
        return w.calls("child", depth, innermost)

    if how == "dead":
        def mid():
            box["child"] = greenlet.greenlet(child_run)       # parent = mid, which now finishes
        m = greenlet.greenlet(mid)
        m.switch()
        box["parent_dead"] = m.dead
    elif how == "unstarted":
        never = greenlet.greenlet(lambda *a: None)
        box["child"] = greenlet.greenlet(child_run, parent=never)
        box["parent_dead"] = (not never.dead) and not bool(never)
    elif how == "dead_below_live":
        def grand():
            def mid():
                box["child"] = greenlet.greenlet(child_run)
            m = greenlet.greenlet(mid)
            m.switch()
            box["parent_dead"] = m.dead
            box["child"].switch()                             # entered from the live grandparent
            box["ran"] = True
        g = greenlet.greenlet(grand)
        w.glets["child"] = None
    else:
        raise AssertionError(how)
    if how == "dead_below_live":
        # the child is created inside grand(); register it lazily
        class Lazy(dict):
            def __getitem__(self, k):
                return box["child"] if k == "child" else dict.__getitem__(self, k)
        w.glets = Lazy()
        g.switch()
    else:
        w.glets["child"] = box["child"]
        box["child"].switch()
    if not box.get("parent_dead"):
        return {"harness_error": "the parent greenlet was not dead/unstarted as intended"}
    if not w.results and not w.obs:
        return {"harness_error": "the orphan greenlet did not run its observation"}
    return {"obs": w.obs[:6], "stats": {"observations": 1, "glets": 2, "from_descendant": 0, "depth": depth}}


def run_other_thread(req):
    """Greenlets that live in ANOTHER thread, in every state: that thread's main greenlet while it runs plain code
    (running there -> error, no frames), a child greenlet running there (error, no frames) while the main one is
    suspended (exactly its frames), and a child suspended there (exactly its frames)."""
    obs = []
    ev = {k: threading.Event() for k in ("p1", "go2", "p2", "go3", "p3", "end")}
    box = {"main_frames": [], "child_frames": []}

    def child_body():
        box["child_frames"].append(sys._getframe())
        ev["p2"].set()
        ev["go3"].wait(30)          # phase 2: the child is RUNNING in this thread
        box["main"].switch()        # phase 3: the child is suspended, the main greenlet runs again

    def level2():
        box["main_frames"].append(sys._getframe())
        ev["p1"].set()
        ev["go2"].wait(30)          # phase 1: plain code in the thread's main greenlet
        box["child"] = greenlet.greenlet(child_body)
        box["child"].switch()       # phase 2 starts inside
        ev["p3"].set()
        ev["end"].wait(30)

    def tmain():
        box["main"] = greenlet.getcurrent()
        box["main_frames"].append(sys._getframe())
        level2()

    t = threading.Thread(target=tmain, daemon=True)
    t.start()

    def look(glet, tag, want_frames):
        with warnings.catch_warnings(record=True):
            warnings.simplefilter("always")
            try:
                st = extract(glet, with_contexts=False)
            except BaseException as ex:
                obs.append({"kind": "raised", "tag": tag, "exc": repr(ex)})
                return
        got = [f.pyframe for f in st.frames]
        if want_frames is None:
            if st.error is None:
                obs.append({"kind": "other_thread_running_no_error", "tag": tag, "frames": [f.funcname for f in st.frames]})
            if st.frames:
                obs.append({"kind": "other_thread_running_frames_reported", "tag": tag,
                            "frames": [f.funcname for f in st.frames]})
        else:
            mine = [f for f in got if f.f_code.co_filename == HERE]
            if mine != want_frames or st.error is not None:
                obs.append({"kind": "other_thread_suspended_frames", "tag": tag, "got": [f.f_code.co_name for f in mine],
                            "exp": [f.f_code.co_name for f in want_frames], "error": repr(st.error)})

    n = 0
    try:
        if not ev["p1"].wait(10):
            return {"harness_error": "thread did not reach phase 1"}
        look(box["main"], "main greenlet of another thread, running plain code", None)
        n += 1
        ev["go2"].set()
        if not ev["p2"].wait(10):
            return {"harness_error": "thread did not reach phase 2"}
        look(box["child"], "child greenlet running in another thread", None)
        look(box["main"], "main greenlet of another thread, suspended", list(box["main_frames"]))
        n += 2
        ev["go3"].set()
        if not ev["p3"].wait(10):
            return {"harness_error": "thread did not reach phase 3"}
        look(box["child"], "child greenlet suspended in another thread", list(box["child_frames"]))
        look(box["main"], "main greenlet of another thread, running again", None)
        n += 2
    finally:
        for e in ev.values():
            e.set()
        t.join(10)
    return {"obs": obs[:6], "stats": {"observations": n, "glets": 2, "from_descendant": 0}}


# ------------------------------------------------------------------------------------ greenback bridges

def running_stack_check(tag, out):
    """extract_since(None) from here must be exactly this thread's running stack: own frames by f_back, then each
    greenlet parent's suspended frames (the C04 ground truth), whatever greenback has put in between"""
    st = stackscope.extract_since(None, with_contexts=False)
    got = [f.pyframe for f in st.frames]
    parts = []
    g = greenlet.getcurrent()
    f = sys._getframe(0)
    while True:
        part = []
        while f is not None:
            part.append(f)
            f = f.f_back
        parts.append(part[::-1])
        g = g.parent
        if g is None:
            break
        f = g.gr_frame
    true = [x for part in reversed(parts) for x in part]
    if got != true or st.error is not None:
        out.append({"kind": "running_stack_from_inside_a_greenback_task", "tag": tag, "got": len(got), "true": len(true),
                    "tail_got": [x.f_code.co_name for x in got[-4:]], "tail_true": [x.f_code.co_name for x in true[-4:]],
                    "error": repr(st.error)})


def run_greenback(req):
    import greenback
    import trio
    import trio.testing
    depth = req["depth"]
    spawn = req.get("spawn", 0)   # every sync level runs its bridge `spawn` greenlets further down (greenlet_spawn idiom)
    first_async = True
    levels = []     # frames of the generated call chain, in call order
    state = {}

    def below(k, fn):
        if k == 0:
            return fn()
        return greenlet.greenlet(below).switch(k - 1, fn)

    awk = req.get("awaitable", 0)

    class ViaWrapper:
        """an awaitable that is not a coroutine object: __await__ hands out the coroutine's own iterator"""

        def __init__(self, co):
            self.co = co

        def __await__(self):
            return self.co.__await__()

    class ViaGenerator(ViaWrapper):
        def __await__(self):
            return (yield from self.co.__await__())

    def as_awaitable(co):
        return [co, ViaWrapper(co), ViaGenerator(co)][awk]

    def make_sync(i):
        def sync_fn():
            levels.append(sys._getframe())
            if i == depth:
                state["inside"] = extract(state["task"])
                state["inside_levels"] = list(levels)
                running_stack_check("sync", state.setdefault("running", []))
                greenback.await_(trio.sleep_forever())
                return
            below(spawn, lambda: greenback.await_(as_awaitable(make_async(i + 1)())))
        return sync_fn

    def make_async(i):
        async def async_fn():
            levels.append(sys._getframe())
            if i == depth:
                state["inside"] = extract(state["task"])
                state["inside_levels"] = list(levels)
                running_stack_check("async", state.setdefault("running", []))
                await trio.sleep_forever()
                return
            make_sync(i + 1)()
        return async_fn

    out = {}

    async def main():
        fn = make_async(0)
        async with trio.open_nursery() as n:
            async def runner():
                state["task"] = trio.lowlevel.current_task()
                portal = req.get("portal", "ensure")
                if portal == "bestow":
                    await fn()       # (no portal yet: depth 0 only; the portal is bestowed from outside while it is blocked)
                elif portal == "ensure":
                    await greenback.ensure_portal()
                    await fn()
                elif portal == "run":
                    await greenback.with_portal_run(fn)
                elif portal in ("run_wrapped_falsy", "run_wrapped_truthy"):
                    # what the portal drives is a coroutine-like OBJECT (collections.abc.Coroutine) around the coroutine -
                    # one of them empty as a container, hence falsy
                    state["wrapper"] = CoroLike(fn(), portal.endswith("falsy"))
                    await greenback.with_portal_run(lambda: state["wrapper"])
                else:       # the chain starts with a synchronous function run in a portal of its own
                    await greenback.with_portal_run_sync(make_sync(0))
            n.start_soon(runner)
            await trio.testing.wait_all_tasks_blocked(0.01)
            out["warnings"] = []
            if req.get("portal") == "bestow":
                # the blocked task is given a portal from outside: until its next step its coroutine is greenback's shim,
                # parked at its first yield, and its own coroutine hangs below that
                greenback.bestow_portal(state["task"])
            # (also when the await_ the task is parked in was made by a greenlet started further down, spawn > 0: greenback
            # resumes that one, and the task's stack goes through it)
            with warnings.catch_warnings(record=True) as w:
                warnings.simplefilter("always")
                st = extract(state["task"])
            out["outside"] = st
            out["warnings"] = [str(x.message)[:150] for x in w]
            out["levels"] = list(levels)
            n.cancel_scope.cancel()

    trio.run(main)
    obs = []
    if "wrapper" in state:
        # an opaque coroutine-like object: the stack ends with it as the leaf, whatever its truth value
        st = out["outside"]
        if st.error is not None:
            obs.append({"kind": "error", "tag": "outside", "exc": repr(st.error)})
        if st.leaf is not state["wrapper"]:
            obs.append({"kind": "leaf_is_not_the_coroutine_like_object", "leaf": repr(st.leaf)[:80]})
        for f in st.frames:
            if f.funcname in ("trampoline", "_greenback_shim") and (f.modname or "").startswith("greenback") and not f.hide:
                obs.append({"kind": "bridging_internal_not_hidden", "tag": "outside", "frame": f.funcname})
        if out["warnings"]:
            obs.append({"kind": "warnings", "msgs": out["warnings"]})
        return {"obs": obs[:6], "stats": {"observations": 1, "glets": 0, "from_descendant": 0, "depth": depth}}
    views = [("outside", out["outside"], out["levels"]), ("inside", state["inside"], state["inside_levels"])]
    for tag, st, lv in views:
        if st.error is not None:
            obs.append({"kind": "error", "tag": tag, "exc": repr(st.error)})
        mine = [f.pyframe for f in st.frames if f.filename == HERE and f.funcname in ("sync_fn", "async_fn")]
        if mine != lv:
            obs.append({"kind": "bridge_chain", "tag": tag, "got": [f.f_code.co_name for f in mine],
                        "exp": [f.f_code.co_name for f in lv], "all": [[f.funcname, f.hide] for f in st.frames]})
        bridge_codes = [getattr(getattr(greenback._impl, nm, None), "__code__", None)
                        for nm in ("_greenback_shim", "_greenback_shim_sync", "trampoline")]
        for f in st.frames:
            if f.pyframe.f_code is greenback.await_.__code__ and not f.hide:
                obs.append({"kind": "await_bridge_not_hidden", "tag": tag})
            if f.pyframe.f_code in bridge_codes and not f.hide:
                # the generator / trampoline that IS the portal, wherever in the stack it sits and from wherever one looks
                obs.append({"kind": "bridging_internal_not_hidden", "tag": tag, "frame": f.funcname})
        obs.extend(_bridging_hidden(st, tag))
    if out["warnings"]:
        obs.append({"kind": "warnings", "msgs": out["warnings"]})
    obs.extend(state.get("running", []))
    return {"obs": obs[:6], "stats": {"observations": len(views), "glets": 0, "from_descendant": 0, "depth": depth}}


def _bridging_hidden(st, tag):
    """'with the bridging internals hidden': every frame between two frames of the generated call chain belongs
    to the bridge (greenback's await_/trampoline, outcome's send, ...) and must be hidden."""
    idx = [i for i, f in enumerate(st.frames) if f.filename == HERE and f.funcname in ("sync_fn", "async_fn")]
    out = []
    if idx:
        for i in range(idx[0], idx[-1]):
            f = st.frames[i]
            if f.filename == HERE and f.funcname in ("below", "<lambda>", "__await__"):
                continue      # the harness's own greenlet-spawning helper: part of the task's synchronous code
            if f.funcname == "adapt_awaitable" and (f.modname or "").startswith("greenback"):
                continue      # greenback's coroutine around a non-coroutine awaitable: the repository's own test shows it
            if i not in idx and not f.hide:
                out.append({"kind": "bridging_internal_not_hidden", "tag": tag, "frame": f.funcname,
                            "module": f.modname, "all": [[x.funcname, x.hide] for x in st.frames]})
                break
    return out


class CoroLike(collections.abc.Coroutine):
    def __init__(self, co, falsy):
        self.co, self.falsy = co, falsy

    def send(self, v):
        return self.co.send(v)

    def throw(self, *a):
        return self.co.throw(*a)

    def close(self):
        return self.co.close()

    def __await__(self):
        return self.co.__await__()

    def __len__(self):
        return 0 if self.falsy else 1


def run_exited_thread(req):
    """greenlets that belonged to a thread which has exited (references kept elsewhere): greenlet calls them dead - its main
    greenlet, and one that was left suspended there.  A dead greenlet has no frames, and there is no error."""
    import threading
    box = {}

    def entry():
        def inner():
            box["main"].switch()
        inner()

    def body():
        box["main"] = greenlet.getcurrent()
        g = greenlet.greenlet(entry)
        box["suspended"] = g
        g.switch()

    t = threading.Thread(target=body)
    t.start()
    t.join(30)
    obs = []
    for which in ("main", "suspended"):
        g = box[which]
        try:
            st = extract(g, with_contexts=False)
        except BaseException as ex:
            obs.append({"kind": "raised", "target": which, "exc": repr(ex)})
            continue
        if st.frames or st.error is not None:
            obs.append({"kind": "greenlet_of_an_exited_thread", "target": which, "frames": [f.funcname for f in st.frames],
                        "error": repr(st.error), "dead_says_greenlet": bool(g.dead)})
    return {"obs": obs, "stats": {"observations": 2, "glets": 2, "from_descendant": 0}}


def run_greenback_asyncio(req):
    """greenback under asyncio, where coroutines are resumed with throw(): every async level first awaits a
    future that fails (after a real suspension) and catches the error, so the bridge last resumed it through the
    error path; then the chain goes one level deeper.  Inspected from inside (innermost level) and from outside."""
    import asyncio
    import greenback
    depth = req["depth"]
    levels = []
    state = {}

    class E(Exception):
        pass

    async def fail_later():
        loop = asyncio.get_running_loop()
        fut = loop.create_future()
        loop.call_soon(fut.set_exception, E("x"))
        await fut

    def make_sync(i):
        def sync_fn():
            levels.append(sys._getframe())
            if i == depth:
                state["inside"] = extract(state["coro"])
                state["inside_levels"] = list(levels)
                state["parked"].set()
                greenback.await_(state["release"].wait())
                return
            greenback.await_(make_async(i + 1)())
        return sync_fn

    def make_async(i):
        async def async_fn():
            levels.append(sys._getframe())
            if req.get("error_resume", True):
                try:
                    await fail_later()
                except E:
                    pass
            if i == depth:
                state["inside"] = extract(state["coro"])
                state["inside_levels"] = list(levels)
                state["parked"].set()
                await state["release"].wait()
                return
            make_sync(i + 1)()
        return async_fn

    out = {}

    async def main():
        state["parked"] = asyncio.Event()
        state["release"] = asyncio.Event()

        async def runner():
            await greenback.ensure_portal()
            state["coro"] = asyncio.current_task().get_coro()
            await make_async(0)()

        t = asyncio.ensure_future(runner())
        await asyncio.wait_for(state["parked"].wait(), 30)
        with warnings.catch_warnings(record=True) as w:
            warnings.simplefilter("always")
            out["outside"] = extract(t.get_coro())
        out["warnings"] = [str(x.message)[:150] for x in w]
        out["levels"] = list(levels)
        state["release"].set()
        await asyncio.wait_for(t, 30)

    try:
        asyncio.run(main())
    except BaseException as ex:
        return {"harness_error": "asyncio greenback scenario failed: %r" % (ex,)}
    obs = []
    for tag, st, lv in (("asyncio-outside", out["outside"], out["levels"]),
                        ("asyncio-inside", state["inside"], state["inside_levels"])):
        if st.error is not None:
            obs.append({"kind": "error", "tag": tag, "exc": repr(st.error)})
        mine = [f.pyframe for f in st.frames if f.filename == HERE and f.funcname in ("sync_fn", "async_fn")]
        if mine != lv:
            obs.append({"kind": "bridge_chain", "tag": tag, "got": [f.f_code.co_name for f in mine],
                        "exp": [f.f_code.co_name for f in lv], "all": [[f.funcname, f.hide] for f in st.frames]})
        obs.extend(_bridging_hidden(st, tag))
    if out["warnings"]:
        obs.append({"kind": "warnings", "msgs": out["warnings"]})
    return {"obs": obs[:6], "stats": {"observations": 2, "glets": 0, "from_descendant": 0, "depth": depth}}


def _handle_orphan(req):
    return run_orphan(req)


def handle(req):
    if req["op"] == "green.orphan":
        return run_orphan(req)
    op = req["op"]
    if op == "green.greenback_asyncio":
        return run_greenback_asyncio(req)
    if op == "green.chain":
        return run_chain(req)
    if op == "green.exited_thread":
        return run_exited_thread(req)
    if op == "green.other_thread":
        return run_other_thread(req)
    if op == "green.greenback":
        return run_greenback(req)
    raise AssertionError(op)
