"""G5: cooperative scheduler.  Threads under test stop at named yield points and wait for the controller;
the controller releases one parked thread per step according to a generated schedule.  Event-driven: the
only timeout is a watchdog whose expiry is a harness error.  Pure stdlib, Python 3.9 syntax.

A thread that is released into a lock held by a parked thread is marked 'blocked' by the lock model (the
caller tells the scheduler which yield points are inside the lock) and is not waited for until the holder
has left the lock.
"""
import threading

WATCHDOG = 60.0


class HarnessTimeout(Exception):
    pass


class Coop:
    def __init__(self, n, lock_points=(), lock_entry_points=()):
        self.n = n
        self.cv = threading.Condition()
        self.state = ["new"] * n          # new / parked / running / blocked / done
        self.where = [None] * n           # name of the point a parked thread is at
        self.turn = None
        self.lock_points = set(lock_points)        # points reached while holding the modelled lock
        self.lock_entry_points = set(lock_entry_points)  # leaving one of these leads straight to the lock
        self.holder = None
        self.trace = []                   # realised schedule: (thread, point) at each release
        self.overlaps = 0
        self.local = threading.local()
        self.errors = []

    # ---- called by the threads under test
    def point(self, name, *info):
        i = getattr(self.local, "idx", None)
        if i is None:
            return  # a thread that is not under the scheduler's control
        with self.cv:
            self.state[i] = "parked"
            self.where[i] = name
            if name in self.lock_points:
                self.holder = i
            elif self.holder == i:
                self.holder = None
            self.cv.notify_all()
            while self.turn != i:
                if not self.cv.wait(WATCHDOG):
                    raise HarnessTimeout("thread %d starved at %s" % (i, name))
            self.turn = None
            self.state[i] = "running"
            if name in self.lock_entry_points and self.holder is not None and self.holder != i:
                self.state[i] = "blocked"
            self.cv.notify_all()

    def attach(self, i):
        self.local.idx = i

    def finish(self, i):
        with self.cv:
            self.state[i] = "done"
            if self.holder == i:
                self.holder = None
            self.local.idx = None
            self.cv.notify_all()

    # ---- controller
    def _settled(self):
        # nothing is running; a blocked thread counts as settled only while somebody else holds the lock
        for i, s in enumerate(self.state):
            if s in ("running", "new"):
                return False
            if s == "blocked" and self.holder is None:
                return False  # the lock is free: it is about to run and park at a lock point
        return True

    def run(self, schedule, on_step=None):
        k = 0
        with self.cv:
            while True:
                while not self._settled():
                    if not self.cv.wait(WATCHDOG):
                        raise HarnessTimeout("controller: threads did not settle: %r %r" % (self.state, self.where))
                parked = [i for i, s in enumerate(self.state) if s == "parked"]
                if not parked:
                    if all(s == "done" for s in self.state):
                        return
                    raise HarnessTimeout("controller: deadlock: %r %r" % (self.state, self.where))
                want = schedule[k % len(schedule)] if schedule else 0
                k += 1
                i = parked[want % len(parked)]
                self.trace.append((i, self.where[i]))
                if on_step:
                    on_step(self, i)
                self.turn = i
                self.state[i] = "running"   # so that _settled() is false until it parks again
                self.cv.notify_all()
                # wait until the released thread has taken the turn
                while self.turn == i:
                    if not self.cv.wait(WATCHDOG):
                        raise HarnessTimeout("controller: thread %d did not take its turn" % i)
