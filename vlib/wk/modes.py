"""C20 (worker side): set_trickery_enabled(True/False/None) takes effect for subsequent extractions on all
threads; None restores auto-detection (trickery on CPython).  Pure stdlib + stackscope, Python 3.9 syntax.
"""
import queue
import sys
import threading
import warnings

import stackscope
from stackscope import extract
from stackscope.lowlevel import set_trickery_enabled


class CM:
    def __enter__(self):
        return self

    def __exit__(self, *a):
        return False


def ref_gen():
    with CM() as xyz:  # noqa: F841
        yield


def mode_in_force(g):
    """trickery iff varname/start_line are populated on the reference frame"""
    with warnings.catch_warnings(record=True) as w:
        warnings.simplefilter("always")
        st = extract(g)
    c = st.frames[0].contexts
    if w or st.error is not None or len(c) != 1:
        return "broken: %r %r %r" % ([str(x.message)[:80] for x in w], st.error, len(c))
    if c[0].varname == "xyz" and c[0].start_line is not None:
        return "trickery"
    if c[0].varname is None and c[0].start_line is None:
        return "referents"
    return "mixed: %r %r" % (c[0].varname, c[0].start_line)


def run_modes(req):
    steps = req["steps"]
    nthreads = req["nthreads"]
    gens = []
    for _ in range(nthreads):
        g = ref_gen()
        next(g)
        gens.append(g)
    qs = [queue.Queue() for _ in range(nthreads)]
    res = queue.Queue()

    def main(i):
        while True:
            item = qs[i].get()
            if item is None:
                return
            kind, val = item
            try:
                if kind == "set":
                    set_trickery_enabled(val)
                    res.put(("ok", None))
                else:
                    res.put(("mode", mode_in_force(gens[i])))
            except BaseException as ex:
                res.put(("raised", repr(ex)))

    ths = [threading.Thread(target=main, args=(i,), daemon=True) for i in range(nthreads)]
    for t in ths:
        t.start()
    obs = []
    current = None    # the model: last value set (None = auto = trickery on CPython)
    nchecks = 0
    try:
        for (i, kind, val) in steps:
            qs[i % nthreads].put((kind, val))
            try:
                tag, out = res.get(timeout=60)
            except queue.Empty:
                return {"harness_error": "mode thread did not answer"}
            if tag == "raised":
                obs.append({"kind": "raised", "step": [i, kind, val], "exc": out})
                break
            if kind == "set":
                current = val
            else:
                nchecks += 1
                want = "referents" if current is False else "trickery"
                if out != want:
                    obs.append({"kind": "mode_in_force", "thread": i % nthreads, "got": out, "want": want,
                                "last_set": current})
                    break
    finally:
        for q in qs:
            q.put(None)
        for t in ths:
            t.join(10)
        set_trickery_enabled(None)
        for g in gens:
            g.close()
    return {"obs": obs, "stats": {"mode_checks": nchecks}}


def run_selftest_race(req):
    """Thread A starts an extraction while the switch is in the auto-detect state and is paused (by its own
    trace function) inside the first-use self-test; thread B calls set_trickery_enabled(val) meanwhile.  Once both
    calls have returned, the mode in force must be the one B set: an explicit setting made after the
    auto-detection started must not be overwritten by the self-test's verdict."""
    import sys
    val = req["val"]
    g = ref_gen()
    next(g)
    g2 = ref_gen()
    next(g2)
    inside, resume, b_returned = threading.Event(), threading.Event(), threading.Event()
    box = {}

    def tracer(frame, event, arg):
        if (event == "call" and frame.f_code.co_name == "_contexts_active_by_trickery" and not inside.is_set()
                and frame.f_globals.get("__name__", "").startswith("stackscope._lowlevel")):
            f = frame
            while f is not None and f.f_code.co_name != "_check_trickery_available":
                f = f.f_back
            if f is not None:
                inside.set()
                resume.wait(30)
        return None

    def thread_a():
        sys.settrace(tracer)
        try:
            with warnings.catch_warnings():
                warnings.simplefilter("ignore")
                box["a"] = extract(g)
        except BaseException as ex:
            box["a_exc"] = repr(ex)
        finally:
            sys.settrace(None)

    def thread_b():
        try:
            set_trickery_enabled(val)
        except BaseException as ex:
            box["b_exc"] = repr(ex)
        b_returned.set()

    set_trickery_enabled(None)      # auto-detect: the next extraction runs the self-test
    ta = threading.Thread(target=thread_a, daemon=True)
    tb = threading.Thread(target=thread_b, daemon=True)
    obs = []
    try:
        ta.start()
        if not inside.wait(30):
            resume.set()
            ta.join(30)
            return {"harness_error": "thread A never entered the self-test (has the auto-detection moved?)"}
        tb.start()
        # B either returns at once or blocks until A is done; both are fine - we only give it a moment to try
        b_returned.wait(0.3)
        resume.set()
        ta.join(60)
        tb.join(60)
        if ta.is_alive() or tb.is_alive():
            return {"harness_error": "threads did not finish"}
        if "a_exc" in box or "b_exc" in box:
            obs.append({"kind": "raised", "a": box.get("a_exc"), "b": box.get("b_exc")})
        got = mode_in_force(g2)
        want = "referents" if val is False else "trickery"
        if got != want:
            obs.append({"kind": "explicit_setting_overwritten_by_self_test", "set": val, "mode_in_force": got})
    finally:
        resume.set()
        set_trickery_enabled(None)
        g.close()
        g2.close()
    return {"obs": obs, "stats": {"mode_checks": 1}}


def run_reset_race(req):
    """set_trickery_enabled(True) is in force; while an extraction is reading the setting, another thread (played by a trace
    function, at the k-th line executed inside the reader) calls set_trickery_enabled(None).  From True to auto-detection
    the setting is never False: that extraction must still use trickery, for every k."""
    import sys
    obs = []
    g = ref_gen()
    next(g)
    npoints = 0
    for k in range(1, 12):
        set_trickery_enabled(True)
        state = {"n": 0, "fired": False}

        def tracer(frame, event, arg, state=state, k=k):
            if frame.f_code.co_name != "_check_trickery_available":
                return tracer if event == "call" else None
            if event == "line":
                state["n"] += 1
                if state["n"] == k and not state["fired"]:
                    state["fired"] = True
                    sys.settrace(None)
                    set_trickery_enabled(None)
                    return None
            return tracer

        sys.settrace(tracer)
        try:
            m = mode_in_force(g)
        finally:
            sys.settrace(None)
        if not state["fired"]:
            break
        npoints += 1
        if m != "trickery":
            obs.append({"kind": "setting_reset_to_auto_detection_while_being_read_gave_another_mode", "k": k, "mode": m})
    set_trickery_enabled(None)
    return {"obs": obs[:3], "stats": {"reset_points": npoints}}


def run_failed_selftest(req):
    """auto-detection state; the first-use self-test fails once (a fault injected inside the trickery analysis it runs), which
    leaves the switch at 'referents' with a warning; set_trickery_enabled(None) must then restore auto-detection: the next
    extraction, with the fault gone, runs the self-test again and uses trickery"""
    import sys
    obs = []
    g = ref_gen()
    next(g)
    set_trickery_enabled(None)
    state = {"fired": False}

    class Injected(Exception):
        pass

    def tracer(frame, event, arg):
        if event == "call" and frame.f_code.co_name == "_contexts_active_by_trickery" and not state["fired"]:
            f = frame.f_back
            while f is not None and f.f_code.co_name != "_check_trickery_available":
                f = f.f_back
            if f is not None:
                def local(frame, event, arg):
                    if event == "line" and not state["fired"]:
                        state["fired"] = True
                        raise Injected("self-test sabotaged once")
                    return local
                return local
        return None

    sys.settrace(tracer)
    try:
        with warnings.catch_warnings(record=True):
            warnings.simplefilter("always")
            first = extract(g)
    except BaseException as ex:
        obs.append({"kind": "extract_raised_when_the_self_test_failed", "exc": repr(ex)})
        first = None
    finally:
        sys.settrace(None)
    if not state["fired"]:
        set_trickery_enabled(None)
        return {"obs": [], "stats": {"selftest_not_reached": 1}}
    if first is not None and (first.error is not None or len(first.frames[0].contexts) != 1):
        obs.append({"kind": "fallback_after_failed_self_test_is_wrong", "error": repr(first.error)})
    set_trickery_enabled(None)
    m = mode_in_force(g)
    if m != "trickery":
        obs.append({"kind": "None_did_not_restore_auto_detection_after_a_failed_self_test", "mode": m})
    set_trickery_enabled(None)
    return {"obs": obs, "stats": {"failed_selftests": 1}}


class Unentered(CM):
    pass


def exact_gen():
    # a manager that is never entered, and whose exit method the frame keeps for later: not an active manager
    spare = Unentered()
    release = spare.__exit__      # noqa: F841
    with CM() as xyz:             # noqa: F841
        yield


def run_near_limit(req):
    """auto-detection state; the library's first use happens a few frames under the recursion limit (stack dumps are asked
    for in `except RecursionError:` handlers too), so deep that the first-use self-test may not fit.  Whatever that call gives,
    it says nothing about the interpreter: a later, ordinary extraction is exact and warns about nothing."""
    import sys
    obs = []
    stats = {"headrooms": 0, "first_call_errors": 0, "first_call_warned": 0}
    for headroom in req["headrooms"]:
        set_trickery_enabled(None)
        g = exact_gen()
        next(g)
        box = {}

        def dive(n):
            if n > 0:
                return dive(n - 1)
            with warnings.catch_warnings(record=True) as w:
                warnings.simplefilter("always")
                try:
                    st = extract(g)
                    box["error"] = st.error
                except RecursionError as ex:
                    box["error"] = ex
                except BaseException as ex:      # noqa
                    box["raised"] = repr(ex)
            box["warned"] = [str(x.message)[:100] for x in w]

        depth = 0
        f = sys._getframe()
        while f is not None:
            depth += 1
            f = f.f_back
        try:
            dive(max(0, sys.getrecursionlimit() - depth - headroom))
        except RecursionError:
            continue            # (did not even get that deep)
        stats["headrooms"] += 1
        stats["first_call_errors"] += 1 if box.get("error") is not None else 0
        stats["first_call_warned"] += 1 if box.get("warned") else 0
        if "raised" in box:
            obs.append({"kind": "extract_raised_near_the_recursion_limit", "headroom": headroom, "exc": box["raised"]})
        # back at an ordinary depth
        with warnings.catch_warnings(record=True) as w:
            warnings.simplefilter("always")
            st = extract(g)
        c = st.frames[0].contexts if st.frames else []
        if w or st.error is not None or len(c) != 1 or c[0].varname != "xyz" or c[0].start_line is None:
            obs.append({"kind": "ordinary_extraction_wrong_after_a_first_use_near_the_recursion_limit", "headroom": headroom,
                        "contexts": [[type(x.obj).__name__, x.varname, x.start_line] for x in c], "error": repr(st.error),
                        "warnings": [str(x.message)[:100] for x in w]})
            break
    set_trickery_enabled(None)
    return {"obs": obs[:3], "stats": stats}


class BareNamespace:
    """the least a namespace for exec() / eval() has to offer: item access"""

    def __init__(self):
        self.d = {}

    def __getitem__(self, k):
        return self.d[k]

    def __setitem__(self, k, v):
        self.d[k] = v

    def __delitem__(self, k):
        del self.d[k]


def run_bare_namespace(req):
    """module-level code that is a coroutine (top-level await, as in `python -m asyncio` or notebooks), evaluated with a
    local namespace that is no dict: observed while suspended inside __aenter__ (nothing entered yet), in the body, and
    inside __aexit__"""
    import ast
    import types
    obs = []
    log = []

    @types.coroutine
    def trap(tag):
        yield tag

    class ACM:
        async def __aenter__(self):
            await trap("entering")
            log.append("entered")
            return self

        async def __aexit__(self, *a):
            log.append("exiting")
            await trap("exiting")
            log.append("exited")

    src = "async with ACM() as acm:\n    await trap('body')\nawait trap('after')\n"
    code = compile(src, "<toplevel-await>", "exec", flags=ast.PyCF_ALLOW_TOP_LEVEL_AWAIT)
    for ns_kind in ("dict", "bare"):
        ns = {} if ns_kind == "dict" else BareNamespace()
        mgr_type = ACM
        co = eval(code, {"ACM": ACM, "trap": trap}, ns)
        del log[:]
        points = []
        try:
            while True:
                tag = co.send(None)
                with warnings.catch_warnings(record=True) as w:
                    warnings.simplefilter("always")
                    st = extract(co)
                got = [(type(c.obj).__name__ if c.obj is not None else None, c.is_exiting) for c in st.frames[0].contexts]
                want = {"entering": [], "body": [("ACM", False)], "exiting": [("ACM", True)], "after": []}[tag]
                if got != want or w or st.error is not None:
                    obs.append({"kind": "toplevel_await_in_a_%s_namespace" % ns_kind, "at": tag, "got": got, "want": want,
                                "warnings": [str(x.message)[:90] for x in w], "error": repr(st.error)})
                points.append(tag)
        except StopIteration:
            pass
        if points != ["entering", "body", "exiting", "after"]:
            return {"harness_error": "unexpected suspension points %r" % (points,)}
    return {"obs": obs[:3], "stats": {"points": 8}}


def run_sampled(req):
    """the calling thread inspects its own running frames while ANOTHER thread does nothing but look at them too
    (sys._current_frames() and a walk along f_back - a sampling profiler, a watchdog): every result must be exact"""
    import threading
    n = req.get("n", 3000)
    stop = []
    main_id = threading.get_ident()

    def sampler():
        while not stop:
            f = sys._current_frames().get(main_id)
            while f is not None:
                f = f.f_back

    class CM:
        def __enter__(self):
            return self

        def __exit__(self, *a):
            return False

    def level2(outer):
        with warnings.catch_warnings(record=True) as w:
            warnings.simplefilter("always")
            st = stackscope.extract_since(outer)
        return st, w

    def level1(bad):
        me = sys._getframe()
        with CM() as cm:
            with CM() as cm2:
                st, w = level2(me)
        got = [(c.obj, c.is_exiting, c.varname) for c in st.frames[0].contexts] if st.frames else None
        if got != [(cm, False, "cm"), (cm2, False, "cm2")] or w or st.error is not None:
            bad.append({"kind": "run.sampled_by_another_thread", "got": repr(got)[:300],
                        "warnings": [str(x.message)[:200] for x in w][:2], "error": repr(st.error)})

    old = sys.getswitchinterval()
    sys.setswitchinterval(1e-5)
    th = threading.Thread(target=sampler, daemon=True)
    th.start()
    bad = []
    try:
        for i in range(n):
            level1(bad)
            if len(bad) >= 3:
                break
    finally:
        stop.append(1)
        th.join(30)
        sys.setswitchinterval(old)
    return {"obs": bad[:3], "stats": {"extractions": n}}


def run_signal_after_exit(req):
    """a signal handler (the library's typical caller: dump the stacks on SIGUSR1 / a watchdog alarm) that interrupts a
    frame between two instructions of a with statement.  Whatever instant it hits: the entry for the manager is absent,
    active, or exiting - and its obj is that manager or None, never some other object (the handler's own arguments)"""
    import signal
    n = req.get("n", 400)
    seen = {"calls": 0, "exiting": 0, "active": 0, "none": 0}
    bad = []
    current = [None]

    class CM:
        def __enter__(self):
            return self

        def __exit__(self, *a):
            return False

    class AM:
        async def __aenter__(self):
            return self

        async def __aexit__(self, *a):
            return False

    def handler(signum, frame):
        seen["calls"] += 1
        try:
            with warnings.catch_warnings():
                warnings.simplefilter("ignore")
                st = stackscope.extract_since(None)
        except BaseException as ex:
            bad.append({"kind": "run.raised_in_signal_handler", "exc": repr(ex)})
            arm()
            return
        for f in st.frames:
            if f.pyframe.f_code.co_name in ("user", "auser"):
                for c in f.contexts:
                    if c.obj is None:
                        seen["none"] += 1
                    elif c.obj is not current[0]:
                        bad.append({"kind": "run.unrelated_object_reported_as_manager", "obj": repr(c.obj)[:80],
                                    "type": type(c.obj).__name__, "is_exiting": c.is_exiting, "frame": f.funcname})
                    seen["exiting" if c.is_exiting else "active"] += 1
        arm()

    def arm():
        if seen["calls"] < n and len(bad) < 3:
            signal.setitimer(signal.ITIMER_REAL, 20e-6 + 7e-6 * (seen["calls"] % 37))

    def user():
        cm = CM()
        current[0] = cm
        with cm:
            pass

    async def auser():
        am = AM()
        current[0] = am
        async with am:
            pass

    old = signal.signal(signal.SIGALRM, handler)
    try:
        arm()
        i = 0
        while seen["calls"] < n and len(bad) < 3 and i < 5000000:
            i += 1
            if i % 2:
                user()
            else:
                co = auser()
                try:
                    co.send(None)
                except StopIteration:
                    pass
    finally:
        signal.setitimer(signal.ITIMER_REAL, 0)
        signal.signal(signal.SIGALRM, old)
    if seen["calls"] < n and not bad:
        return {"harness_error": "only %d signal deliveries" % seen["calls"]}
    return {"obs": bad[:3], "stats": seen}


def handle(req):
    if req["op"] == "modes.signal_after_exit":
        return run_signal_after_exit(req)
    if req["op"] == "modes.sampled":
        return run_sampled(req)
    if req["op"] == "modes.bare_namespace":
        return run_bare_namespace(req)
    if req["op"] == "modes.near_limit":
        return run_near_limit(req)
    if req["op"] == "modes.failed_selftest":
        return run_failed_selftest(req)
    if req["op"] == "modes.reset_race":
        return run_reset_race(req)
    if req["op"] == "modes.selftest_race":
        return run_selftest_race(req)
    if req["op"] == "modes.run":
        return run_modes(req)
    raise AssertionError(req["op"])
