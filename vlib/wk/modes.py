"""C20 (worker side): set_trickery_enabled(True/False/None) takes effect for subsequent extractions on all
threads; None restores auto-detection (trickery on CPython).  Pure stdlib + stackscope, Python 3.9 syntax.
"""
import queue
import threading
import warnings

from stackscope import extract
from stackscope.lowlevel import set_trickery_enabled


class CM:
    def __enter__(self):
        return self

    def __exit__(self, *a):
        return False


def ref_gen():
    with CM() as xyz:  # noqa: F841
        yield


def mode_in_force(g):
    """trickery iff varname/start_line are populated on the reference frame"""
    with warnings.catch_warnings(record=True) as w:
        warnings.simplefilter("always")
        st = extract(g)
    c = st.frames[0].contexts
    if w or st.error is not None or len(c) != 1:
        return "broken: %r %r %r" % ([str(x.message)[:80] for x in w], st.error, len(c))
    if c[0].varname == "xyz" and c[0].start_line is not None:
        return "trickery"
    if c[0].varname is None and c[0].start_line is None:
        return "referents"
    return "mixed: %r %r" % (c[0].varname, c[0].start_line)


def run_modes(req):
    steps = req["steps"]
    nthreads = req["nthreads"]
    gens = []
    for _ in range(nthreads):
        g = ref_gen()
        next(g)
        gens.append(g)
    qs = [queue.Queue() for _ in range(nthreads)]
    res = queue.Queue()

    def main(i):
        while True:
            item = qs[i].get()
            if item is None:
                return
            kind, val = item
            try:
                if kind == "set":
                    set_trickery_enabled(val)
                    res.put(("ok", None))
                else:
                    res.put(("mode", mode_in_force(gens[i])))
            except BaseException as ex:
                res.put(("raised", repr(ex)))

    ths = [threading.Thread(target=main, args=(i,), daemon=True) for i in range(nthreads)]
    for t in ths:
        t.start()
    obs = []
    current = None    # the model: last value set (None = auto = trickery on CPython)
    nchecks = 0
    try:
        for (i, kind, val) in steps:
            qs[i % nthreads].put((kind, val))
            try:
                tag, out = res.get(timeout=60)
            except queue.Empty:
                return {"harness_error": "mode thread did not answer"}
            if tag == "raised":
                obs.append({"kind": "raised", "step": [i, kind, val], "exc": out})
                break
            if kind == "set":
                current = val
            else:
                nchecks += 1
                want = "referents" if current is False else "trickery"
                if out != want:
                    obs.append({"kind": "mode_in_force", "thread": i % nthreads, "got": out, "want": want,
                                "last_set": current})
                    break
    finally:
        for q in qs:
            q.put(None)
        for t in ths:
            t.join(10)
        set_trickery_enabled(None)
        for g in gens:
            g.close()
    return {"obs": obs, "stats": {"mode_checks": nchecks}}


def handle(req):
    if req["op"] == "modes.run":
        return run_modes(req)
    raise AssertionError(req["op"])
