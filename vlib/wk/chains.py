"""G2: await / yield-from chains (worker side).  Pure stdlib, Python 3.9 syntax.

A chain is built from an IR {"outer": kind, "links": [[kind, multiline], ...], "end": ..., "nsusp": n};
frame i reaches frame i+1 through link i.  Every created coroutine / generator / async generator is
recorded, so the oracle knows which object owns which frame without asking stackscope.

Ops: chains.c03 (extract == path of a thrown exception), chains.c16 (origin / extract_outermost contracts)
"""
import sys
import types
import warnings
import weakref

import stackscope
from stackscope import extract, extract_outermost


class Probe(BaseException):
    pass


class B:
    """One chain under construction: IR + registry of created objects."""

    def __init__(self, ir):
        self.ir = ir
        self.links = ir["links"]
        self.owners = []      # generator-like objects created, in creation order
        self.leaf = None
        self.inside = None    # callable run by the innermost frame instead of suspending (running leg)
        self.inside_result = None
        self.unwound = []     # frames in the order an exception left them (innermost first)
        self.sent = []
        self.error_allowed = False
        self.tracked = {}     # id(frame) -> (frame, [managers it has open, outermost first])
        self.decoys = []      # objects that are only passed around as messages (never part of the chain)

    def reg(self, obj):
        self.owners.append(obj)
        return obj


@types.coroutine
def trapn(b, n):
    try:
        for i in range(n):
            yield ["T", i]
    finally:
        b.unwound.append(sys._getframe())


class Fut:
    """non-frame leaf: an iterator awaitable without a Python-level throw()"""

    def __await__(self):
        return self

    def __iter__(self):
        return self

    def __next__(self):
        return "fut"

    def __repr__(self):
        return "<Fut>"


class GenLike:
    """non-frame leaf with the whole generator protocol (send / throw / close), as future-style awaitable iterators
    have: it satisfies collections.abc.Generator structurally, but it has no frame"""

    def __init__(self, n):
        self.n = n

    def __iter__(self):
        return self

    def __next__(self):
        return self.send(None)

    def send(self, value):
        if self.n <= 0:
            raise StopIteration
        self.n -= 1
        return "G"

    def throw(self, typ, val=None, tb=None):
        raise typ if val is None else val

    def close(self):
        self.n = 0

    def __repr__(self):
        return "<GenLike>"


class FalsyIter:
    """non-frame leaf that is falsy (an iterator that knows it has nothing queued): still the leaf"""

    def __init__(self, n):
        self.n = n

    def __iter__(self):
        return self

    def __next__(self):
        if self.n <= 0:
            raise StopIteration
        self.n -= 1
        return "F"

    def __len__(self):
        return 0

    def __repr__(self):
        return "<FalsyIter>"


class AwaitVia:
    """object whose __await__ returns whatever `fn` returns"""

    def __init__(self, fn):
        self.fn = fn

    def __await__(self):
        return self.fn()


class AwaitGen:
    """object whose __await__ is itself a generator function (so it has a frame of its own)"""

    def __init__(self, b, i, ml):
        self.b, self.i, self.ml = b, i, ml

    def __await__(self):
        try:
            if self.ml:
                yield from (
                    to_iter(nxt(self.b, self.i))
                )
            else:
                yield from to_iter(nxt(self.b, self.i))
        finally:
            self.b.unwound.append(sys._getframe())


def to_iter(aw):
    if isinstance(aw, (types.GeneratorType, Fut, FalsyIter, GenLike)) or type(aw).__name__ == "list_iterator":
        return aw
    if hasattr(aw, "__await__"):
        return aw.__await__()
    return aw


# ---- frame templates: each awaits / yields from whatever nxt(b, i) builds -------------------------

# Every template keeps its await inside a try/finally that logs the frame when it is left.  Two reasons:
# the log is a second, traceback-independent record of which frames an exception unwound through; and
# CPython <= 3.10 omits from the traceback a frame that has no try block at all when the exception
# arrives through an athrow()/aclose() awaitable (an interpreter quirk, reproduced without stackscope),
# which would make the traceback oracle wrong there.

async def coro_frame(b, i, ml):
    x = 1  # noqa: F841
    try:
        if ml:
            await (
                nxt(b, i)
            )
        else:
            await nxt(b, i)
    finally:
        b.unwound.append(sys._getframe())
    return "coro-done"


@types.coroutine
def gencoro_frame(b, i, ml):
    try:
        if ml:
            yield from (
                to_iter(nxt(b, i))
            )
        else:
            yield from to_iter(nxt(b, i))
    finally:
        b.unwound.append(sys._getframe())


def gen_frame(b, i, ml):
    try:
        if ml:
            yield from (
                to_iter(nxt(b, i))
            )
        else:
            yield from to_iter(nxt(b, i))
    finally:
        b.unwound.append(sys._getframe())
    return "gen-done"


async def agen_frame(b, i, mode, ml):
    try:
        if mode in ("asend", "anext", "async_for"):
            if ml:
                await (
                    nxt(b, i)
                )
            else:
                await nxt(b, i)
            yield 1
        else:
            try:
                yield 0
            except ValueError:
                await nxt(b, i)  # athrow lands here
                yield 2
            finally:
                if mode == "aclose":
                    await nxt(b, i)
    finally:
        b.unwound.append(sys._getframe())


async def agen_frame_v(b, i, ml):
    """an async generator that is already running when the chain reaches it: it is resumed with asend(VALUE)"""
    try:
        got = yield 0
        b.sent.append(got)
        if ml:
            await (
                nxt(b, i)
            )
        else:
            await nxt(b, i)
        yield 1
    finally:
        b.unwound.append(sys._getframe())


async def _decoy_agen():
    yield "decoy"


def _decoy_gen():
    yield "decoy"


async def _decoy_coro():
    await Fut()


class _Frameish:
    """a message object that happens to have the attributes stackscope looks for on generators"""
    ag_frame = gi_frame = cr_frame = None
    ag_await = gi_yieldfrom = cr_await = None
    ag_running = gi_running = cr_running = False

    def __init__(self):
        self.ag_frame = self.gi_frame = self.cr_frame = sys._getframe()


def make_sent_value(b, which):
    """the value sent into a running async generator: objects that are themselves inspectable"""
    if which == 0:
        v = _decoy_agen()
        try:
            v.asend(None).send(None)
        except StopIteration:
            pass
        b.decoys.append(v)
    elif which == 1:
        v = _decoy_gen()
        next(v)
        b.decoys.append(v)
    elif which == 2:
        v = _decoy_coro()
        v.send(None)
        b.decoys.append(v)
    elif which == 3:
        v = _Frameish()
    else:
        v = 7
    return v


async def coro_send_value(b, i, ag, which):
    try:
        await ag.asend(None)   # runs the generator to its first yield: no suspension here
        await ag.asend(make_sent_value(b, which))
    finally:
        b.unwound.append(sys._getframe())
    return "sent-done"


class CustomAiter:
    """an async iterator written as a class: __anext__ is a coroutine function whose frame continues the chain"""

    def __init__(self, b, i, ml):
        self.b, self.i, self.ml = b, i, ml

    def __aiter__(self):
        return self

    async def __anext__(self):
        try:
            if self.ml:
                await (
                    nxt(self.b, self.i)
                )
            else:
                await nxt(self.b, self.i)
            return 1
        finally:
            self.b.unwound.append(sys._getframe())


class ExitAwaiter:
    """async context manager whose __aexit__ is what continues the chain: the frame that used it is then observed
    suspended inside its own manager's exit, where older interpreters report the last body line, newer ones the with line"""

    def __init__(self, b, i):
        self.b, self.i = b, i

    async def __aenter__(self):
        return self

    async def __aexit__(self, *exc):
        try:
            await nxt(self.b, self.i)
        finally:
            self.b.unwound.append(sys._getframe())
        return False


class _BoolRaises:
    def __bool__(self):
        raise RuntimeError("no truth value")


def _tbhide_value(which):
    """values a frame may bind to __tracebackhide__: plain True, pytest's documented predicate form (a callable taking the
    ExceptionInfo), and an object that cannot be truth-tested; the frame is hidden either way, nothing inward may vanish"""
    import operator
    return [True, operator.methodcaller("errisinstance", ValueError), _BoolRaises()][which]


async def coro_tbhide_frame(b, i, ml, which):
    __tracebackhide__ = _tbhide_value(which)  # noqa: F841
    try:
        if ml:
            await (
                nxt(b, i)
            )
        else:
            await nxt(b, i)
    finally:
        b.unwound.append(sys._getframe())
    return "tbhide-done"


class ExitAwaiterDelSelf(ExitAwaiter):
    """the same, but the exit method unbinds its own `self` before it waits (`res = self; del self; await ...`): the
    frame of __aexit__ then no longer says which manager it belongs to"""

    async def __aexit__(self, *exc):
        b, i = self.b, self.i
        del self
        try:
            await nxt(b, i)
        finally:
            b.unwound.append(sys._getframe())
        return False


class PlainCM:
    def __enter__(self):
        return self

    def __exit__(self, *a):
        return False

    async def __aenter__(self):
        return self

    async def __aexit__(self, *a):
        return False


class TrackedCM:
    """a manager that records, per frame, which managers that frame currently has open (in order)"""

    def __init__(self, b):
        self.b = b
        self.fr = None

    def _enter(self, fr):
        self.fr = fr
        self.b.tracked.setdefault(id(fr), (fr, []))[1].append(self)

    def _exit(self):
        lst = self.b.tracked[id(self.fr)][1]
        assert lst and lst[-1] is self
        lst.pop()

    def __enter__(self):
        self._enter(sys._getframe(1))
        return self

    def __exit__(self, *a):
        self._exit()
        return False

    async def __aenter__(self):
        self._enter(sys._getframe(1))
        return self

    async def __aexit__(self, *a):
        self._exit()
        return False


async def agen_with_frame(b, i, ml):
    """an async generator that holds managers open while it waits for the rest of the chain"""
    try:
        with TrackedCM(b) as outer, TrackedCM(b):  # noqa: F841
            async with TrackedCM(b):
                if ml:
                    await (
                        nxt(b, i)
                    )
                else:
                    await nxt(b, i)
                yield 1
    finally:
        b.unwound.append(sys._getframe())


def gen_with_frame(b, i, ml):
    try:
        with TrackedCM(b) as outer, TrackedCM(b):  # noqa: F841
            yield from to_iter(nxt(b, i))
    finally:
        b.unwound.append(sys._getframe())
    return "gen-with-done"


async def coro_aexit_frame(b, i, ml):
    try:
        async with ExitAwaiter(b, i) as mgr:  # noqa: F841
            x = 1  # noqa: F841
            y = (
                2
            )  # noqa: F841
    finally:
        b.unwound.append(sys._getframe())
    return "aexit-done"


async def coro_aexit_delself_frame(b, i, ml):
    try:
        async with ExitAwaiterDelSelf(b, i) as mgr:  # noqa: F841
            x = 1  # noqa: F841
    finally:
        b.unwound.append(sys._getframe())
    return "aexit-done"


async def coro_withbody_frame(b, i, ml):
    try:
        with TrackedCM(b) as outer, TrackedCM(b):  # noqa: F841
            async with TrackedCM(b):
                if ml:
                    await (
                        nxt(b, i)
                    )
                else:
                    await nxt(b, i)
    finally:
        b.unwound.append(sys._getframe())
    return "withbody-done"


async def coro_async_for(b, i, ag):
    try:
        async for _ in ag:
            break
    finally:
        b.unwound.append(sys._getframe())
    return "for-done"


async def coro_two_step(b, i, ag, mode):
    try:
        await ag.asend(None)   # the generator yields at once: no suspension here
        if mode == "athrow":
            await ag.athrow(ValueError("x"))
        else:
            await ag.aclose()
    finally:
        b.unwound.append(sys._getframe())
    return "two-done"


@types.coroutine
def gen_two_step(b, i, ag, mode):
    try:
        yield from ag.asend(None)
        if mode == "athrow":
            yield from ag.athrow(ValueError("x"))
        else:
            yield from ag.aclose()
    finally:
        b.unwound.append(sys._getframe())


def end_aw(b):
    end = b.ir["end"]
    n = b.ir.get("nsusp", 1)
    if b.inside is not None:
        async def runner():
            b.inside_result = b.inside()
            await trapn(b, 1)
        return b.reg(runner())
    if end == "trap":
        return b.reg(trapn(b, n))
    if end == "fut":
        b.leaf = Fut()
        return b.leaf

    if end == "genlike":
        def mkg():
            b.leaf = GenLike(n)
            return b.leaf
        return AwaitVia(mkg)

    if end == "falsyiter":
        def mkf():
            b.leaf = FalsyIter(n)
            return b.leaf
        return AwaitVia(mkf)

    def mk():
        b.leaf = iter(["L"] * n)
        return b.leaf
    return AwaitVia(mk)


def nxt(b, i):
    """The awaitable that frame i waits on (built lazily, when frame i runs)."""
    if i >= len(b.links):
        return end_aw(b)
    kind, ml = b.links[i]
    j = i + 1
    if kind == "await_coro":
        return b.reg(coro_frame(b, j, ml))
    if kind == "await_gencoro":
        return b.reg(gencoro_frame(b, j, ml))
    if kind == "in_aexit":
        return b.reg(coro_aexit_frame(b, j, ml))
    if kind.startswith("tbhide"):
        return b.reg(coro_tbhide_frame(b, j, ml, int(kind[-1])))
    if kind == "in_aexit_delself":
        b.error_allowed = True    # which manager is exiting cannot be told: an error about THAT is not judged here
        return b.reg(coro_aexit_delself_frame(b, j, ml))
    if kind == "in_with_body":
        return b.reg(coro_withbody_frame(b, j, ml))
    if kind in ("agen_with_asend", "agen_with_async_for", "agen_with_anext"):
        ag = b.reg(agen_with_frame(b, j, ml))
        if kind == "agen_with_asend":
            return ag.asend(None)
        if kind == "agen_with_anext":
            return ag.__anext__()
        return b.reg(coro_async_for(b, j, ag))
    if kind == "gen_with_yield_from":
        return AwaitVia(lambda: b.reg(gen_with_frame(b, j, ml)))
    if kind == "await_obj_wrapper":
        co = b.reg(coro_frame(b, j, ml))
        return AwaitVia(co.__await__)
    if kind == "await_obj_gen":
        w = AwaitGen(b, j, ml)

        def mk():
            return b.reg(AwaitGen.__await__(w))
        return AwaitVia(mk)
    if kind == "yield_from_gen":
        return AwaitVia(lambda: b.reg(gen_frame(b, j, ml)))
    if kind in ("asend", "anext"):
        ag = b.reg(agen_frame(b, j, kind, ml))
        return ag.asend(None) if kind == "asend" else ag.__anext__()
    if kind in ("anext_builtin", "anext_default", "anext_custom", "anext_custom_default"):
        # the anext() builtin (3.10+): its two-argument form wraps the __anext__() result in another awaitable; a
        # custom async iterator's __anext__ is a coroutine function.  On 3.9 these are the plain __anext__ link.
        custom = "custom" in kind
        if custom:
            src = CustomAiter(b, j, ml)
        else:
            src = b.reg(agen_frame(b, j, "anext", ml))
        if sys.version_info < (3, 10):
            return src.__anext__() if not custom else b.reg(src.__anext__())
        import builtins
        if kind.endswith("default"):
            return builtins.anext(src, "dflt")
        aw = builtins.anext(src)
        return b.reg(aw) if custom else aw
    if kind == "async_for":
        ag = b.reg(agen_frame(b, j, kind, ml))
        return b.reg(coro_async_for(b, j, ag))
    if kind.startswith("asend_val"):
        ag = b.reg(agen_frame_v(b, j, ml))
        return b.reg(coro_send_value(b, j, ag, int(kind[-1])))
    if kind in ("athrow", "aclose"):
        ag = b.reg(agen_frame(b, j, kind, ml))
        if ml:
            return b.reg(gen_two_step(b, j, ag, kind))
        return b.reg(coro_two_step(b, j, ag, kind))
    raise AssertionError(kind)


def build(ir, inside=None):
    b = B(ir)
    b.inside = inside
    outer = ir["outer"]
    ml = ir.get("outer_ml", False)
    if outer == "coro":
        x = b.reg(coro_frame(b, 0, ml))
    elif outer == "gen":
        x = b.reg(gen_frame(b, 0, ml))
    elif outer == "gencoro":
        x = b.reg(gencoro_frame(b, 0, ml))
    elif outer == "agen":
        x = b.reg(agen_frame(b, 0, "asend", ml))
    else:
        raise AssertionError(outer)
    b.root = x
    return b, x


class Drv:
    def __init__(self, x, kind):
        self.x, self.kind = x, kind
        self.aw = x.asend(None) if kind == "agen" else x

    def send(self):
        return self.aw.send(None)

    def throw(self, exc):
        return self.aw.throw(exc)


def owner_of(b, pyframe):
    for o in b.owners:
        for attr in ("gi_frame", "cr_frame", "ag_frame"):
            if getattr(o, attr, None) is pyframe:
                return o
    return None


def tb_list(tb):
    out = []
    while tb is not None:
        out.append((tb.tb_frame, tb.tb_lineno))
        tb = tb.tb_next
    return out


def fdesc(pairs):
    return [[f.f_code.co_name, ln] for f, ln in pairs]


def drive_to(ir, j, inside=None):
    """Fresh chain driven to its j-th suspension.  Returns (b, x, drv, value) or raises StopIteration etc."""
    b, x = build(ir, inside)
    d = Drv(x, ir["outer"])
    v = None
    for _ in range(j):
        v = d.send()
    return b, x, d, v


def run_c03(req):
    ir = req["ir"]
    obs = []
    stats = {"points": 0}
    nsusp = ir.get("nsusp", 1) if ir["end"] != "fut" else ir.get("nsusp", 1)
    for j in range(1, nsusp + 1):
        try:
            b, x, d, v = drive_to(ir, j)
        except BaseException as ex:
            return {"harness_error": "chain did not reach suspension %d: %r (ir=%r)" % (j, ex, ir)}
        stats["points"] += 1
        with warnings.catch_warnings(record=True) as w:
            warnings.simplefilter("always")
            try:
                st = extract(x)
                st2 = extract(x, with_contexts=False)
            except BaseException as ex:
                obs.append({"kind": "raised", "j": j, "exc": repr(ex)})
                continue
        for ww in w:
            obs.append({"kind": "warning", "j": j, "msg": str(ww.message)[:300]})
        got = [(f.pyframe, f.lineno) for f in st.frames]
        got2 = [(f.pyframe, f.lineno) for f in st2.frames]
        # "with_contexts=False leaves every contexts empty without changing the frames": nothing but contexts differs
        if [(f.hide, f.hide_line, f.origin) for f in st.frames] != [(f.hide, f.hide_line, f.origin) for f in st2.frames] \
                or any(f.contexts for f in st2.frames):
            obs.append({"kind": "with_contexts_changes_frame_attributes", "j": j,
                        "with": [(f.funcname, f.hide, f.hide_line, type(f.origin).__name__) for f in st.frames],
                        "without": [(f.funcname, f.hide, f.hide_line, type(f.origin).__name__, len(f.contexts)) for f in st2.frames]})
        leaf, root, err = st.leaf, st.root, st.error
        leaf2 = st2.leaf
        del st, st2
        # oracle: the path of an exception thrown into x right now
        del b.unwound[:]
        try:
            d.aw.throw(Probe())  # called here directly: exactly one harness frame precedes the chain
            exp = None
        except Probe as ex:
            exp = [p for p in tb_list(ex.__traceback__)[1:] if p[0].f_code is not GenLike.throw.__code__]
            # (the leaf's own Python-level throw() method is how the probe gets raised there, not a frame of the chain)
            ex.__traceback__ = None
        except BaseException as ex:
            return {"harness_error": "probe exception was transformed: %r (ir=%r)" % (ex, ir)}
        if exp is None:
            return {"harness_error": "probe exception was swallowed (ir=%r)" % (ir,)}
        if got != exp:
            obs.append({"kind": "frames", "j": j, "got": fdesc(got), "exp": fdesc(exp),
                        "same_objects": [a[0] is c[0] for a, c in zip(got, exp)]})
        unw = list(reversed(b.unwound))
        if len(unw) != len(got) or any(a[0] is not f for a, f in zip(got, unw)):
            obs.append({"kind": "frames_vs_unwind_log", "j": j, "got": fdesc(got),
                        "exp": [f.f_code.co_name for f in unw]})
        if got2 != got:
            obs.append({"kind": "with_contexts_changes_frames", "j": j, "got": fdesc(got2), "exp": fdesc(got)})
        if err is not None and not b.error_allowed:
            obs.append({"kind": "error", "j": j, "exc": repr(err)})
        if root is not x:
            obs.append({"kind": "root", "j": j, "got": repr(root)})
        want_leaf = None if ir["end"] == "trap" else b.leaf
        if leaf is not want_leaf or leaf2 is not want_leaf:
            obs.append({"kind": "leaf", "j": j, "got": repr(leaf), "exp": repr(want_leaf)})
        stats["depth"] = len(exp)
    # x created but never started: an exception thrown into it unwinds through exactly its own frame (def line)
    b, x = build(ir)
    try:
        with warnings.catch_warnings(record=True) as w:
            warnings.simplefilter("always")
            st = extract(x)
        got = [(f.pyframe, f.lineno) for f in st.frames]
        own = getattr(x, "gi_frame", None) or getattr(x, "cr_frame", None) or getattr(x, "ag_frame", None)
        if ([f for f, _ln in got] != [own] or got[0][1] != own.f_code.co_firstlineno or st.leaf is not None
                or st.error is not None or st.root is not x or w):
            obs.append({"kind": "unstarted", "got": fdesc(got), "leaf": repr(st.leaf), "error": repr(st.error),
                        "warnings": [str(i.message)[:100] for i in w]})
        stats["unstarted"] = 1
        del st
    except BaseException as ex:
        obs.append({"kind": "raised", "j": 0, "exc": repr(ex)})
    try:
        x.close() if hasattr(x, "close") else None
    except BaseException:
        pass
    # exhausted x: no frames, no leaf
    b, x = build(ir)
    d = Drv(x, ir["outer"])
    try:
        for _ in range(50):
            d.send()
    except (StopIteration, StopAsyncIteration):
        pass
    except BaseException as ex:
        return {"harness_error": "chain failed while running to completion: %r (ir=%r)" % (ex, ir)}
    if ir["end"] != "fut":
        fin = getattr(x, "gi_frame", None) or getattr(x, "cr_frame", None) or getattr(x, "ag_frame", None)
        if ir["outer"] == "agen":
            # the outer async generator has yielded once; finish it
            try:
                a2 = x.asend(None)
                a2.send(None)
            except (StopIteration, StopAsyncIteration):
                pass
            fin = x.ag_frame
        if fin is None:
            stats["exhausted_checked"] = 1
            st = extract(x)
            if st.frames or st.leaf is not None or st.error is not None or st.root is not x:
                obs.append({"kind": "exhausted", "got": [f.funcname for f in st.frames], "leaf": repr(st.leaf),
                            "error": repr(st.error)})
    return {"obs": obs, "stats": stats}


def frames_equal(a, b):
    return (a.pyframe is b.pyframe and a.lineno == b.lineno and a.contexts == b.contexts and a.hide == b.hide
            and a.hide_line == b.hide_line and a.origin is b.origin)


def check_origin_contracts(b, st, obs, tag, stats):
    for f in st.frames:
        own = owner_of(b, f.pyframe)
        if f.origin is not None:
            stats["origins"] = stats.get("origins", 0) + 1
            try:
                weakref.ref(f.origin)
            except TypeError:
                obs.append({"kind": "origin_not_weakrefable", "tag": tag, "frame": f.funcname})
                continue
            try:
                back = extract_outermost(f.origin)
                if back.pyframe is not f.pyframe:
                    obs.append({"kind": "origin_recovers_other_frame", "tag": tag, "frame": f.funcname,
                                "got": back.funcname, "origin": type(f.origin).__name__})
            except BaseException as ex:
                obs.append({"kind": "origin_recover_raised", "tag": tag, "frame": f.funcname, "exc": repr(ex)})
        if tag == "suspended" and own is not None and f.origin is not own:
            obs.append({"kind": "origin_is_not_owner", "tag": tag, "frame": f.funcname,
                        "origin": type(f.origin).__name__, "owner": type(own).__name__})


def run_c16(req):
    ir = req["ir"]
    obs = []
    stats = {}
    j = req.get("j", 1)
    # --- suspended
    try:
        b, x, d, v = drive_to(ir, j)
    except BaseException as ex:
        return {"harness_error": "chain did not reach suspension %d: %r (ir=%r)" % (j, ex, ir)}
    with warnings.catch_warnings(record=True) as w:
        warnings.simplefilter("always")
        try:
            st = extract(x)
            check_origin_contracts(b, st, obs, "suspended", stats)
            # the contracts do not depend on whether contexts were asked for
            check_origin_contracts(b, extract(x, with_contexts=False), obs, "suspended.without_contexts", stats)
            stats["frames"] = len(st.frames)
            try:
                fo = extract_outermost(x)
                if not st.frames:
                    obs.append({"kind": "outermost_did_not_raise", "tag": "suspended"})
                elif not frames_equal(fo, st.frames[0]) or fo != st.frames[0]:
                    obs.append({"kind": "outermost_differs", "tag": "suspended", "got": fo.funcname})
            except BaseException as ex:
                if st.frames:
                    obs.append({"kind": "outermost_raised", "tag": "suspended", "exc": repr(ex)})
        except BaseException as ex:
            obs.append({"kind": "raised", "tag": "suspended", "exc": repr(ex)})
    for ww in w:
        obs.append({"kind": "warning", "tag": "suspended", "msg": str(ww.message)[:300]})
    try:
        d.throw(Probe())
    except BaseException:
        pass
    # --- running: the innermost frame calls a plain function that extracts the whole chain from inside
    if req.get("running", True):
        holder = {}

        def inside():
            out = []
            st_in = extract(holder["x"])
            holder["nframes"] = len(st_in.frames)
            check_origin_contracts(holder["b"], st_in, out, "running", stats)
            try:
                fo = extract_outermost(holder["x"])
                if not st_in.frames or fo.pyframe is not st_in.frames[0].pyframe or fo.lineno != st_in.frames[0].lineno:
                    out.append({"kind": "outermost_differs", "tag": "running"})
            except BaseException as ex:
                out.append({"kind": "outermost_raised", "tag": "running", "exc": repr(ex)})
            if st_in.error is not None and not holder["b"].error_allowed:
                out.append({"kind": "error", "tag": "running", "exc": repr(st_in.error)})
            # the running stack seen from inside must contain every frame of the chain, in order
            holder["obs"] = out
            return True

        b2, x2 = build(ir, inside)
        holder["b"], holder["x"] = b2, x2
        d2 = Drv(x2, ir["outer"])
        with warnings.catch_warnings(record=True) as w:
            warnings.simplefilter("always")
            try:
                d2.send()
            except BaseException as ex:
                return {"harness_error": "running leg failed: %r (ir=%r)" % (ex, ir)}
        for ww in w:
            obs.append({"kind": "warning", "tag": "running", "msg": str(ww.message)[:300]})
        if "obs" not in holder:
            return {"harness_error": "running leg: inside() was not called (ir=%r)" % (ir,)}
        obs.extend(holder["obs"])
        stats["running_frames"] = holder.get("nframes", 0)
        try:
            d2.throw(Probe())
        except BaseException:
            pass
    return {"obs": obs, "stats": stats}


def run_ctx(req):
    """The managers held open by the frames of a chain, seen through the whole chain (C20 in referents mode, C01 in
    trickery mode): for every frame, contexts = exactly the managers that frame has open, in order."""
    from stackscope.lowlevel import set_trickery_enabled
    ir = req["ir"]
    obs = []
    stats = {"frames_with_managers": 0, "agen_frames_with_managers_reached_through_another_frame": 0}
    try:
        b, x, d, v = drive_to(ir, 1)
    except BaseException as ex:
        return {"harness_error": "chain did not reach its first suspension: %r (ir=%r)" % (ex, ir)}
    for mode in ("trick", "ref"):
        set_trickery_enabled(mode == "trick")
        try:
            with warnings.catch_warnings(record=True) as w:
                warnings.simplefilter("always")
                try:
                    st = extract(x)
                except BaseException as ex:
                    obs.append({"kind": mode + ".raised", "exc": repr(ex)})
                    continue
        finally:
            set_trickery_enabled(None)
        for ww in w:
            obs.append({"kind": mode + ".warning", "msg": str(ww.message)[:200]})
        if st.error is not None and not b.error_allowed:
            obs.append({"kind": mode + ".error", "exc": repr(st.error)})
        for pos, f in enumerate(st.frames):
            if f.funcname in ("coro_aexit_frame", "coro_aexit_delself_frame"):
                continue     # its manager (the one whose __aexit__ continues the chain) is not a tracked one
            want = list(b.tracked.get(id(f.pyframe), (None, []))[1])
            got = [c.obj for c in f.contexts]
            if want and mode == "ref":
                stats["frames_with_managers"] += 1
                if pos > 0 and f.funcname == "agen_with_frame":
                    stats["agen_frames_with_managers_reached_through_another_frame"] += 1
            if len(got) != len(want) or any(a is not c for a, c in zip(got, want)) or any(c.is_exiting for c in f.contexts):
                obs.append({"kind": mode + ".chain_frame_contexts", "frame": f.funcname, "position": pos,
                            "got": [type(o).__name__ for o in got], "want": len(want)})
                break
        del st
    try:
        d.aw.throw(Probe())
    except BaseException:
        pass
    return {"obs": obs[:6], "stats": stats}


def run_exhausted_agen(req):
    """an async generator that FINISHED while its aclose() awaitable was being thrown into (a task cancelled while it
    awaits agen.aclose() and the generator's clean-up awaits too): CPython leaves ag_running set on it, ag_frame is None.
    An exhausted x yields no frames."""
    @types.coroutine
    def trap():
        yield "trapped"

    class Cancelled(BaseException):
        pass

    async def agen_fn():
        try:
            yield 1
        finally:
            await trap()

    obs = []
    for how in ("aclose_thrown_into", "plainly_exhausted"):
        ag = agen_fn()
        try:
            ag.asend(None).send(None)
        except StopIteration:
            pass
        if how == "aclose_thrown_into":
            t = ag.aclose()
            t.send(None)                 # the clean-up is awaiting now
            try:
                t.throw(Cancelled())
            except Cancelled:
                pass
        else:
            t = ag.aclose()
            t.send(None)
            try:
                t.send(None)
            except StopIteration:
                pass
        if ag.ag_frame is not None:
            return {"harness_error": "the async generator is not finished"}
        here = sys._getframe()
        for wc in (True, False):
            try:
                st = extract(ag, with_contexts=wc)
            except BaseException as ex:
                obs.append({"kind": "raised", "exc": repr(ex)})
                continue
            if st.frames or st.error is not None:
                obs.append({"kind": "exhausted_async_generator_has_frames", "how": how, "ag_running": bool(ag.ag_running),
                            "frames": [f.funcname for f in st.frames][-4:], "includes_the_callers_own_frame":
                            any(f.pyframe is here for f in st.frames), "error": repr(st.error)})
    return {"obs": obs[:3], "stats": {"points": 4}}


def run_special(req):
    kind = req["ir"]["special"]
    if kind == "exhausted_agen_with_running_flag":
        return run_exhausted_agen(req)
    if kind != "anext_sequence_awaitable":
        raise AssertionError(kind)
    if sys.version_info < (3, 10):
        return {"obs": [], "stats": {"points": 0, "not_available": 1}}
    import builtins

    @types.coroutine
    def trap():
        yield "trapped"

    async def decoy():
        await trap()

    dc = decoy()
    dc.send(None)

    class SeqAwaitable(tuple):
        def __await__(self):
            return (yield from trap())

    class It:
        def __aiter__(self):
            return self

        def __anext__(self):
            return SeqAwaitable((dc, 42))

    async def main():
        await builtins.anext(It(), "dflt")

    m = main()
    m.send(None)
    obs = []
    try:
        st = extract(m)
    except BaseException as ex:
        return {"obs": [{"kind": "raised", "exc": repr(ex)}], "stats": {"points": 1}}
    names = [f.funcname for f in st.frames]
    if any(f.pyframe is dc.cr_frame for f in st.frames) or "decoy" in names or st.leaf == 42:
        obs.append({"kind": "frames_of_a_coroutine_nobody_in_the_chain_awaits", "frames": names, "leaf": repr(st.leaf)[:80]})
    if not st.frames or st.frames[0].pyframe is not m.cr_frame:
        obs.append({"kind": "frames", "got": names})
    dc.close()
    m.close()
    return {"obs": obs, "stats": {"points": 1}}


def handle(req):
    op = req["op"]
    if op == "chains.c03" and "special" in req.get("ir", {}):
        return run_special(req)
    if op == "chains.ctx":
        return run_ctx(req)
    if op == "chains.c03":
        return run_c03(req)
    if op == "chains.c16":
        return run_c16(req)
    raise AssertionError(op)
