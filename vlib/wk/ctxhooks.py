"""C11 (worker side): context hooks - elaborate, unwrap, re-elaborate until steady state.
Synthetic wrapper chains whose hooks are table-driven and log every invocation.
Pure stdlib + stackscope, Python 3.9 syntax.
"""
import os
import sys
import types
import warnings
from contextlib import contextmanager

import stackscope
from stackscope import (PRUNE, Context, elaborate_context, extract, extract_child, fill_context, unwrap_context,
                        unwrap_context_generator, unwrap_stackitem)

LOG = []
W = {"links": [], "objs": [], "exiting": False}


def _pool_gen():
    yield


POOLGEN = _pool_gen()
next(POOLGEN)


class Leaf:
    def __init__(self, tag):
        self.tag = tag


class Mg:
    def __init__(self, idx, spec):
        self.idx, self.spec = idx, spec

    def __enter__(self):
        return self

    def __exit__(self, *a):
        return False

    def __repr__(self):
        return "Mg(%d)" % self.idx

    def __len__(self):   # a manager that is also an empty container is falsy - and still a manager
        return 0 if self.spec.get("falsy") else 1

    def __eq__(self, other):
        # managers with an equality of their own: one that is equal to everything (a mock, an "any" matcher), one that
        # cannot be compared; which manager an unwrap hook returned is a matter of identity
        if self.spec.get("eq") == "true":
            return True
        if self.spec.get("eq") == "raise":
            raise TypeError("cannot compare")
        return self is other

    def __hash__(self):
        return id(self)


def _elab_mg(m, ctx):
    LOG.append(["elab", m.idx])
    sp = m.spec
    if "desc" in sp["elab"]:
        ctx.description = "d%d" % m.idx
    if "children" in sp["elab"]:
        ctx.children = [Context(obj=Leaf("c%d" % m.idx), is_async=False)]
    if "inner" in sp["elab"]:
        ctx.inner_stack = extract_child(POOLGEN, for_task=False)
    if sp.get("objto") is not None:
        ctx.obj = W["objs"][sp["objto"]]


def _result(kind, idx):
    if kind == "none":
        return None
    if kind == "prune":
        return PRUNE
    if kind == "self":
        return W["objs"][idx]
    if kind == "back":
        return W["objs"][0]
    if kind == "next":
        return W["objs"][idx + 1] if idx + 1 < len(W["objs"]) else None
    raise AssertionError(kind)


def _unwrap_mg(m, ctx):
    LOG.append(["unwrap", m.idx])
    return _result(m.spec["unwrap"], m.idx)


@contextmanager
def gcm_a(tag):
    yield tag


@contextmanager
def gcm_b(tag):
    yield tag


def _delegate(tag):
    yield tag


@contextmanager
def gcm_c(tag):
    yield from _delegate(tag)


class InnerCM:
    def __init__(self, tag):
        self.tag = tag

    def __enter__(self):
        return self

    def __exit__(self, *a):
        return False


INNER = {}   # tag -> the manager opened inside gcm_d's generator


@contextmanager
def gcm_d(tag):
    INNER[tag] = InnerCM(tag)
    with INNER[tag]:
        yield tag


class InnerBad(InnerCM):
    """a manager opened inside a wrapper's generator whose own description fails: the wrapper's generator stack is then
    extracted with an error recorded on it - which is no reason not to unwrap the wrapper"""


@elaborate_context.register(InnerBad)
def _elab_innerbad(m, ctx):
    raise ValueError("describing the inner manager fails")


@contextmanager
def gcm_e(tag):
    INNER[tag] = InnerBad(tag)
    with INNER[tag]:
        yield tag


GCM = {"a": gcm_a, "b": gcm_b, "c": gcm_c, "d": gcm_d, "e": gcm_e}
BY_FRAME = {}   # id(generator frame) -> link index


def _ucg_hook(frame, ctx):
    idx = BY_FRAME.get(id(frame.pyframe))
    if idx is None:
        LOG.append(["ucg", None, False])
        return None
    mgr = W["objs"][idx]
    ok = frame.pyframe is mgr.gen.gi_frame and isinstance(frame, stackscope.Frame)
    # the hook must see the same, fully analysed Frame on both paths (inner stack present / exiting): its
    # contexts are the managers opened inside the generator (real hooks, e.g. the pytest-trio glue, rely on it)
    want = [INNER.get("g%d" % idx)] if W["links"][idx]["fn"] in ("d", "e") else []
    got = [c.obj for c in frame.contexts]
    if len(got) != len(want) or any(a is not b for a, b in zip(got, want)):
        ok = False
    LOG.append(["ucg", idx, ok])
    return _result(W["links"][idx]["hook"], idx)


def _register_mg_hooks():
    elaborate_context.register(Mg)(_elab_mg)
    unwrap_context.register(Mg)(_unwrap_mg)


if os.environ.get("VERIF_C11_PENDING_GLUE"):
    # the hooks for the synthetic managers come as the glue of a module that appeared after stackscope was imported
    # and has not been seen by any extraction yet: whoever fills a context first has to install it
    _m = types.ModuleType("vmod_c11_pending_glue")
    _m._stackscope_install_glue_ = _register_mg_hooks
    sys.modules[_m.__name__] = _m
else:
    _register_mg_hooks()

unwrap_context_generator.register(gcm_a, _ucg_hook)
unwrap_context_generator.register(gcm_c, _ucg_hook)
unwrap_context_generator.register(gcm_d, _ucg_hook)
unwrap_context_generator.register(gcm_e, _ucg_hook)


def build(case, enter_head=True):
    del LOG[:]
    BY_FRAME.clear()
    INNER.clear()
    W["links"] = case["links"]
    W["exiting"] = case["exiting"]
    objs = []
    for i, L in enumerate(case["links"]):
        if L["t"] == "mg":
            objs.append(Mg(i, L))
        else:
            m = GCM[L["fn"]]("g%d" % i)
            if i > 0 or enter_head:
                m.__enter__()
                BY_FRAME[id(m.gen.gi_frame)] = i
            objs.append(m)
    W["objs"] = objs
    return objs


def classify_error(ex):
    """'RuntimeError' for the 100-step guard (alone or as a member of a group of reported errors), else the repr"""
    members = [ex]
    seen = []
    while members:
        e = members.pop()
        seen.append(e)
        members.extend(getattr(e, "exceptions", ()) or ())
    if any(type(e) is RuntimeError and "100 times" in str(e) for e in seen):
        return "RuntimeError"
    return repr(ex)


def describe(ctx, error=None):
    objs = W["objs"]
    idx = None
    for i, o in enumerate(objs):
        if ctx.obj is o:
            idx = i
    inner = None
    if ctx.inner_stack is not None:
        fr = ctx.inner_stack.frames
        if fr and fr[0].pyframe is POOLGEN.gi_frame:
            inner = "i"
        else:
            inner = "?"
            for i, o in enumerate(objs):
                if hasattr(o, "gen") and fr and fr[0].pyframe is o.gen.gi_frame:
                    inner = "gen%d" % i
                    if W["links"][i]["fn"] == "c" and (len(fr) != 2 or fr[1].funcname != "_delegate"):
                        inner = "gen%d-without-delegate" % i
        if ctx.inner_stack.error is not None:
            inner = "%s+error" % inner
    children = None
    if ctx.children:
        children = [getattr(getattr(c, "obj", None), "tag", "?") for c in ctx.children]
    desc = ctx.description
    if desc is not None and not (desc.startswith("d") and desc[1:].isdigit()):
        desc = "GLUE"
    return {"obj": idx, "hide": bool(ctx.hide), "desc": desc, "inner": inner, "children": children,
            "error": error, "log": [list(x) for x in LOG]}


def finish():
    for o in W["objs"]:
        if hasattr(o, "gen"):
            try:
                o.gen.close()
            except BaseException:
                pass


def run_top(case):
    objs = build(case)
    ctx = Context(obj=objs[0], is_async=False, is_exiting=case["exiting"])
    err = None
    try:
        fill_context(ctx)
    except RuntimeError as ex:
        err = classify_error(ex)
    except BaseException as ex:
        err = classify_error(ex)
    out = describe(ctx, err)
    finish()
    return out


class Item:
    def __init__(self, fn):
        self.fn = fn


@unwrap_stackitem.register(Item)
def _unwrap_item(it):
    it.fn()
    return None


def run_inside(case):
    objs = build(case)
    ctx = Context(obj=objs[0], is_async=False, is_exiting=case["exiting"])
    holder = {}

    def fn():
        try:
            fill_context(ctx)
        except Exception as ex:
            holder["err"] = classify_error(ex)
    st = extract(Item(fn))
    err = holder.get("err")
    if st.error is not None:
        err = "stack.error: %r" % (st.error,)
    out = describe(ctx, err)
    finish()
    return out


class Tail:
    """a fixed two-link wrapper chain opened by the same frame AFTER the generated head: whatever happens while
    the head's context is filled, this context must still be elaborated and unwrapped (T0 -> T1)"""

    def __init__(self, n):
        self.n = n

    def __enter__(self):
        return self

    def __exit__(self, *a):
        return False


TAILS = {}


@elaborate_context.register(Tail)
def _elab_tail(m, ctx):
    ctx.description = "tail%d" % m.n


@unwrap_context.register(Tail)
def _unwrap_tail(m, ctx):
    return TAILS["t1"] if m.n == 0 else None


def run_frames(case):
    objs = build(case, enter_head=False)
    TAILS["t0"], TAILS["t1"] = Tail(0), Tail(1)

    def holder_gen(head):
        with head:
            with TAILS["t0"]:
                yield

    g = holder_gen(objs[0])
    next(g)
    if hasattr(objs[0], "gen"):
        BY_FRAME[id(objs[0].gen.gi_frame)] = 0
    with warnings.catch_warnings(record=True) as w:
        warnings.simplefilter("always")
        st = extract(g)
    err = None
    if st.error is not None:
        e = st.error
        err = classify_error(e)
    if not st.frames or len(st.frames[0].contexts) != 2:
        out = {"obj": "no-context", "log": [list(x) for x in LOG], "error": err}
    else:
        out = describe(st.frames[0].contexts[0], err)
        t = st.frames[0].contexts[1]
        out["tail_ok"] = (t.obj is TAILS["t1"] and t.description == "tail1" and not t.hide)
        out["tail"] = [type(t.obj).__name__, getattr(t.obj, "n", None), t.description]
    if w:
        out["warnings"] = [str(x.message)[:200] for x in w]
    g.close()
    finish()
    return out


def run_stack(case):
    """the chain's head registered on an ExitStack: the stack's child context for it goes through the same
    elaborate / unwrap loop, and a PRUNEd one stays in children (hidden), it does not vanish"""
    from contextlib import ExitStack
    objs = build(case)
    es = ExitStack()
    es.push(objs[0])          # registers objs[0].__exit__ (generator-based heads were entered by build())
    es.callback(finish)
    ctx = Context(obj=es, is_async=False)
    err = None
    try:
        fill_context(ctx)
    except RuntimeError as ex:
        err = classify_error(ex)
    except BaseException as ex:
        err = classify_error(ex)
    kids = [c for c in ctx.children if isinstance(c, Context)]
    if err is None and len(kids) != 2:
        out = {"obj": "children=%d" % len(kids), "log": [list(x) for x in LOG], "error": err}
    elif err is not None:
        out = {"obj": None, "log": [list(x) for x in LOG], "error": err}
    else:
        out = describe(kids[0], err)
        out["desc_raw"] = kids[0].description
    finish()
    return out


def handle(req):
    op = req["op"]
    if op == "ctxhooks.run":
        case = req["case"]
        res = {"top": run_top(case), "inside": run_inside(case)}
        if not case["exiting"]:
            res["frames"] = run_frames(case)
            res["stack"] = run_stack(case)
        return res
    raise AssertionError(op)
