"""C14 (worker side; needs trio: the 3.12 venv only): the extracted tree is isomorphic to Trio's own task
tree, across thread hops.  Task functions are rendered from a spec to source so that the statement that
ends each nursery body (which decides the bytecode shape the exiting-context analysis sees) is generated.
"""
import linecache
import sys
import threading
import warnings
from contextlib import AsyncExitStack, asynccontextmanager

import stackscope
from stackscope import Context, Stack, extract

import trio
import trio.testing

HERE = __file__
NSRC = [0]


BLOCKER_FRAMES = {}
BLOCKER_EVT = [None]


def blocker(tid):
    BLOCKER_FRAMES[tid] = sys._getframe()
    BLOCKER_EVT[0].wait(60)


SHARED_THREAD_NAME = "db-worker"


class FalsyCallable:
    """a callable object that is falsy (it is also an empty container, say): still the function to run"""

    def __call__(self, tid):
        return blocker(tid)

    def __len__(self):
        return 0


class NameEnum(str):
    """a thread name that is an instance of a str SUBCLASS (a `class X(str, Enum)` member, say): Thread.name keeps a plain
    str copy of it, another object"""


def renaming_blocker(tid):
    # the function renames the thread it runs on (for logging / debuggers), then blocks
    threading.current_thread().name = "job-%d" % tid
    return blocker(tid)


NAME_ONLY = [False]   # older Trio (worker_fn shares nothing per-call with its to_thread.run_sync frame): the thread's name is all there is


async def tleaf(tid):
    # several sibling tasks run this very function, so their tasks (and their worker threads) have equal names
    if NAME_ONLY[0] and (tid % 5 in (3, 4) or tid % 3 == 1):
        await trio.to_thread.run_sync(blocker, tid)
    elif tid % 5 == 3:
        await trio.to_thread.run_sync(blocker, tid, thread_name=NameEnum("pool-worker"))
    elif tid % 5 == 4:
        await trio.to_thread.run_sync(renaming_blocker, tid)
    elif tid % 3 == 1:
        # ... or the very same name object, given explicitly
        await trio.to_thread.run_sync(blocker, tid, thread_name=SHARED_THREAD_NAME)
    elif tid % 3 == 2:
        await trio.to_thread.run_sync(FalsyCallable(), tid)
    else:
        await trio.to_thread.run_sync(blocker, tid)


def is_thread_leaf(spec):
    return spec.get("block") == "thread" and not spec["nurseries"]


def count_thread_leaves(spec):
    n = 1 if is_thread_leaf(spec) else 0
    for nz in spec["nurseries"]:
        for ch in nz["children"]:
            n += count_thread_leaves(ch)
    return n


def render_task(spec, funcs, blocklines):
    """spec: {"id", "nurseries": [{"children": [spec...], "via": ...}...], "block": "body"|"aexit", "end": shape}
    Returns the name of the rendered coroutine function (stored in funcs)."""
    tid = spec["id"]
    name = "task_%d" % tid
    for nz in spec["nurseries"]:
        for ch in nz["children"]:
            if not is_thread_leaf(ch):
                render_task(ch, funcs, blocklines)
    lines = []

    def emit(ind, s):
        lines.append("    " * ind + s)
        return len(lines)

    nzs = spec["nurseries"]
    via = spec.get("via", "direct") if nzs else "direct"
    body_fn_ind = 1
    # (a child started with `await nursery.start(fn)` reports itself started first thing - or never, which keeps its
    # parent inside Nursery.start(), whose own temporary nursery then holds the child)
    emit(0, "async def %s(task_status=trio.TASK_STATUS_IGNORED):" % name)
    if spec.get("spawn") == "start":
        emit(1, "task_status.started(%d)" % tid)
    emit(1, "flag = False")
    if via == "helper":
        emit(1, "return await %s_helper()" % name)
        emit(0, "async def %s_helper():" % name)
        emit(1, "flag = False")
    ind = 1
    last_with_line = None
    pending_line = None
    for i, nz in enumerate(nzs):
        if via in ("acm", "acm_unwrap") and i == 0:
            last_with_line = emit(ind, "async with %s_cm() as n%d:" % (name, i))
        elif via == "exitstack" and i == 0 and (len(nzs) >= 2 or spec.get("block") != "aexit"):
            # the nursery is entered through an AsyncExitStack: it shows up as a child context of the stack's context
            last_with_line = emit(ind, "async with AsyncExitStack() as es%d:" % i)
            emit(ind + 1, "n%d = await es%d.enter_async_context(trio.open_nursery())" % (i, i))
        else:
            last_with_line = emit(ind, "async with trio.open_nursery() as n%d:" % i)
        ind += 1
        for ch in nz["children"]:
            if is_thread_leaf(ch):
                emit(ind, "n%d.start_soon(FUNCS['tleaf'], %d)" % (i, ch["id"]))
            elif ch.get("spawn") == "start":
                emit(ind, "got%d = await n%d.start(FUNCS['task_%d'])" % (ch["id"], i, ch["id"]))
            elif ch.get("spawn") == "start_pending":
                pending_line = emit(ind, "await n%d.start(FUNCS['task_%d'])" % (i, ch["id"]))
            else:
                emit(ind, "n%d.start_soon(FUNCS['task_%d'])" % (i, ch["id"]))
    end = spec.get("end", "plain")
    if end == "plain":
        emit(ind, "x = 1")
    elif end == "try_except":
        emit(ind, "try:")
        emit(ind + 1, "x = 1")
        emit(ind, "except ValueError:")
        emit(ind + 1, "pass")
    elif end == "try_except_reraise":
        # the try suite runs off its end, every handler leaves by raise / return (cancel-and-reraise idiom)
        emit(ind, "try:")
        emit(ind + 1, "x = 1")
        emit(ind, "except ValueError:")
        emit(ind + 1, "n0.cancel_scope.cancel()")
        emit(ind + 1, "raise")
        emit(ind, "except KeyError:")
        emit(ind + 1, "return 7")
    elif end == "try_except_else":
        emit(ind, "try:")
        emit(ind + 1, "x = 1")
        emit(ind, "except ValueError as exc:")
        emit(ind + 1, "raise RuntimeError('x') from exc")
        emit(ind, "else:")
        emit(ind + 1, "y = 2")
    elif end == "try_except_finally":
        emit(ind, "try:")
        emit(ind + 1, "x = 1")
        emit(ind, "except ValueError:")
        emit(ind + 1, "raise")
        emit(ind, "finally:")
        emit(ind + 1, "y = 2")
    elif end == "while_else":
        emit(ind, "while flag:")
        emit(ind + 1, "break")
        emit(ind, "else:")
        emit(ind + 1, "y = 2")
    elif end == "try_finally":
        emit(ind, "try:")
        emit(ind + 1, "x = 1")
        emit(ind, "finally:")
        emit(ind + 1, "y = 2")
    elif end == "cond_return":
        emit(ind, "x = 1")
        emit(ind, "if flag:")
        emit(ind + 1, "return 5")
    elif end == "for_break":
        emit(ind, "for _i in range(2):")
        emit(ind + 1, "if _i == 0:")
        emit(ind + 2, "break")
    has_live_child = bool(nzs) and bool(nzs[-1]["children"])
    if pending_line is not None:
        # never gets past that line
        emit(ind, "await trio.sleep_forever()")
        blocklines[tid] = ("start", pending_line)
    elif spec.get("block") == "aexit" and has_live_child:
        blocklines[tid] = ("aexit", last_with_line)
    else:
        ln = emit(ind, "await trio.sleep_forever()")
        blocklines[tid] = ("body", ln)
    if via in ("acm", "acm_unwrap"):
        emit(0, "@asynccontextmanager")
        emit(0, "async def %s_cm():" % name)
        cm_with = emit(1, "async with trio.open_nursery() as inner:")
        emit(2, "yield inner")
        if blocklines[tid][0] == "aexit" and len(nzs) == 1:
            # the only nursery lives in the generator-based manager: that generator's frame is what blocks
            blocklines[tid] = ("aexit", cm_with)
    NSRC[0] += 1
    fname = "<c14-%d-%s>" % (NSRC[0], name)
    src = "\n".join(lines) + "\n"
    linecache.cache[fname] = (len(src), None, src.splitlines(True), fname)
    ns = {"trio": trio, "FUNCS": funcs, "asynccontextmanager": asynccontextmanager, "AsyncExitStack": AsyncExitStack,
          "__name__": "c14tasks"}
    exec(compile(src, fname, "exec"), ns)
    if via == "acm_unwrap":
        # a hook of the kind the pytest-trio glue has: the generator-based manager stands for the nursery it opens
        stackscope.unwrap_context_generator.register(ns[name + "_cm"])(_unwrap_to_first_context)
    funcs[name] = ns[name]
    funcs[name + ":file"] = fname
    funcs[name + ":via"] = via
    return name


def _unwrap_to_first_context(frame, context):
    if context.is_exiting:
        return None      # (the generator's frames, with the nursery's own context, are in the main series then)
    return frame.contexts[0].obj if frame.contexts else None


def nursery_contexts(stack, out):
    """Contexts whose obj is a trio.Nursery, in nesting order: frames -> contexts -> inner stacks -> child contexts."""
    for f in stack.frames:
        for c in f.contexts:
            _ctx(c, out)


def _ctx(c, out):
    if isinstance(c.obj, trio.Nursery):
        out.append(c)
    if c.inner_stack is not None:
        nursery_contexts(c.inner_stack, out)
    for ch in c.children:
        if isinstance(ch, Context):
            _ctx(ch, out)


def all_errors(stack, out):
    if stack.error is not None:
        out.append(repr(stack.error))
    for f in stack.frames:
        for c in f.contexts:
            _errs(c, out)


def _errs(c, out):
    if c.inner_stack is not None:
        all_errors(c.inner_stack, out)
    for ch in c.children:
        if isinstance(ch, Stack):
            pass   # child task stacks are visited by compare()
        else:
            _errs(ch, out)


def compare(task, stack, path, bad, info, funcs, blocklines):
    errs = []
    all_errors(stack, errs)
    if errs:
        bad.append({"kind": "error", "path": path, "errors": errs[:2]})
    if stack.root is not task:
        bad.append({"kind": "root", "path": path})
    ctxs = []
    nursery_contexts(stack, ctxs)
    if [c.obj for c in ctxs] != list(task.child_nurseries):
        bad.append({"kind": "nurseries_differ_from_task.child_nurseries", "path": path, "got": len(ctxs),
                    "exp": len(task.child_nurseries), "frames": [f.funcname for f in stack.frames]})
        return
    info["tasks"] += 1
    # where is the task blocked?  (only for generated tasks)
    name = task.name.rsplit(".", 1)[-1]
    if name == "tleaf":
        tid = task.coro.cr_frame.f_locals.get("tid")
        info["thread_leaves"] = info.get("thread_leaves", 0) + 1
        theirs = [f.pyframe for f in stack.frames if f.pyframe.f_code is blocker.__code__]
        if theirs != [BLOCKER_FRAMES.get(tid)]:
            bad.append({"kind": "thread_leaf_shows_another_threads_frames", "path": path, "tid": tid,
                        "got_tids": [f.f_locals.get("tid") for f in theirs]})
    if name in funcs and name.startswith("task_"):
        tid = int(name[5:])
        kind, line = blocklines[tid]
        fname = funcs[name + ":file"]
        mine = [f for f in stack.frames if f.filename == fname]
        if not mine:
            bad.append({"kind": "no_harness_frame", "path": path})
        else:
            inner = mine[-1]
            if inner.lineno != line:
                bad.append({"kind": "blocking_point", "path": path, "block": kind, "got_line": inner.lineno, "exp_line": line})
            if kind == "start":
                info["blocked_in_nursery_start"] = info.get("blocked_in_nursery_start", 0) + 1
                if any(c.is_exiting for c in inner.contexts):
                    bad.append({"kind": "exiting_context_in_a_frame_that_is_awaiting_nursery_start", "path": path})
            if kind == "aexit":
                info["blocked_in_aexit"] += 1
                last = inner.contexts[-1] if inner.contexts else None
                if last is None or not last.is_exiting:
                    bad.append({"kind": "blocked_in_aexit_but_no_exiting_context", "path": path,
                                "contexts": [[type(c.obj).__name__, c.is_exiting] for c in inner.contexts]})
    for c, n in zip(ctxs, task.child_nurseries):
        kids = [ch for ch in c.children if isinstance(ch, Stack)]
        if len(kids) != len(c.children) or len(kids) != len(n.child_tasks):
            bad.append({"kind": "children_count", "path": path, "got": len(kids), "exp": len(n.child_tasks)})
            continue
        want = {id(t): t for t in n.child_tasks}
        seen = set()
        for ch in kids:
            if id(ch.root) not in want or id(ch.root) in seen:
                bad.append({"kind": "child_root_is_not_a_child_task", "path": path})
                continue
            seen.add(id(ch.root))
            compare(ch.root, ch, path + [ch.root.name.rsplit(".", 1)[-1]], bad, info, funcs, blocklines)


def run_tree(req):
    spec = req["spec"]
    NAME_ONLY[0] = bool(req.get("name_only"))
    funcs = {}
    blocklines = {}
    funcs["tleaf"] = tleaf
    BLOCKER_FRAMES.clear()
    BLOCKER_EVT[0] = threading.Event()
    want_threads = count_thread_leaves(spec)
    if is_thread_leaf(spec):
        spec = dict(spec, block="body")
        want_threads = 0
    root_name = render_task(spec, funcs, blocklines)
    out = {}

    async def main():
        async with trio.open_nursery() as n:
            n.start_soon(funcs[root_name])
            await trio.testing.wait_all_tasks_blocked()
            for _ in range(4000):
                if len(BLOCKER_FRAMES) >= want_threads:
                    break
                await trio.sleep(0.005)
            else:
                out["harness"] = "worker threads did not start"
            await trio.testing.wait_all_tasks_blocked()
            with warnings.catch_warnings(record=True) as w:
                warnings.simplefilter("always")
                try:
                    st = extract(trio.lowlevel.current_root_task(), recurse_child_tasks=True)
                except BaseException as ex:
                    out["raised"] = repr(ex)
                    st = None
            bad = []
            info = {"tasks": 0, "blocked_in_aexit": 0}
            if st is not None:
                compare(trio.lowlevel.current_root_task(), st, ["root"], bad, info, funcs, blocklines)
                # without recursion the children must be stubs
                st2 = extract(trio.lowlevel.current_root_task())
                c2 = []
                nursery_contexts(st2, c2)
                for c in c2:
                    for ch in c.children:
                        if not isinstance(ch, Stack) or ch.frames or ch.root is None:
                            bad.append({"kind": "child_not_a_stub_without_recursion"})
                try:
                    str(st)
                except BaseException as ex:
                    bad.append({"kind": "format_raised", "exc": repr(ex)})
            out["bad"] = bad
            out["info"] = info
            out["warnings"] = [str(x.message)[:200] for x in w]
            BLOCKER_EVT[0].set()
            n.cancel_scope.cancel()

    try:
        trio.run(main)
    except BaseException as ex:
        # tearing the tree down cancels children that never reported themselves started: Nursery.start() complains
        # about those (after all observations have been made)
        def leaves(e):
            if hasattr(e, "exceptions"):
                for sub in e.exceptions:
                    for x in leaves(sub):
                        yield x
            else:
                yield e
        if "bad" not in out or not all(isinstance(e, RuntimeError) and "task_status.started" in str(e) for e in leaves(ex)):
            raise
    finally:
        BLOCKER_EVT[0].set()
    if "harness" in out:
        return {"harness_error": out["harness"]}
    obs = []
    if "raised" in out:
        obs.append({"kind": "extract_raised", "exc": out["raised"]})
    obs.extend(out.get("bad", []))
    if out.get("warnings"):
        obs.append({"kind": "warning", "msgs": out["warnings"]})
    return {"obs": obs[:6], "stats": out.get("info", {})}


def run_pingpong(req):
    depth = req["depth"]
    end_sync_on_event = req.get("end") == "event"
    levels = []
    evt = threading.Event()
    out = {}

    def make_sync(i):
        def sync_fn():
            levels.append(sys._getframe())
            if i == depth:
                trio.from_thread.run_sync(arrived.set)
                evt.wait(30)
                return
            trio.from_thread.run(make_async(i + 1))
        return sync_fn

    def make_async(i):
        async def async_fn():
            levels.append(sys._getframe())
            if i == depth:
                arrived.set()
                await trio.sleep_forever()
                return
            await trio.to_thread.run_sync(make_sync(i + 1))
        return async_fn

    arrived = None

    async def main():
        nonlocal arrived
        arrived = trio.Event()
        fn = make_async(0)
        holder = []
        async with trio.open_nursery() as n:
            async def runner():
                holder.append(trio.lowlevel.current_task())
                await fn()
            n.start_soon(runner)
            await arrived.wait()
            await trio.testing.wait_all_tasks_blocked(0.02)
            with warnings.catch_warnings(record=True) as w:
                warnings.simplefilter("always")
                try:
                    st = extract(holder[0], recurse_child_tasks=True)
                except BaseException as ex:
                    out["raised"] = repr(ex)
                    st = None
            out["st"] = st
            out["levels"] = list(levels)
            out["warnings"] = [str(x.message)[:200] for x in w]
            evt.set()
            n.cancel_scope.cancel()

    try:
        trio.run(main)
    except BaseException as ex:
        out["run_ended"] = repr(ex)
    obs = []
    if "raised" in out:
        obs.append({"kind": "extract_raised", "exc": out["raised"]})
    st = out.get("st")
    if st is not None:
        if st.error is not None:
            obs.append({"kind": "error", "exc": repr(st.error)})
        mine = [f.pyframe for f in st.frames if f.filename == HERE and f.funcname in ("sync_fn", "async_fn")]
        if mine != out["levels"]:
            obs.append({"kind": "thread_hop_chain", "got": [f.f_code.co_name for f in mine],
                        "exp": [f.f_code.co_name for f in out["levels"]],
                        "all": [[f.funcname, f.hide] for f in st.frames]})
        # "shows the worker thread's frames in place of the wait": Trio's wait trap may only appear as the very
        # last frame, and only when the chain ends blocked in Trio (even depth) rather than in a thread
        traps = [i for i, f in enumerate(st.frames) if f.funcname == "wait_task_rescheduled"]
        want = [len(st.frames) - 1] if depth % 2 == 0 else []
        if traps != want:
            obs.append({"kind": "wait_frames_not_replaced_by_thread_frames", "trap_positions": traps, "want": want,
                        "all": [[f.funcname, f.hide] for f in st.frames]})
    if out.get("warnings"):
        obs.append({"kind": "warning", "msgs": out["warnings"]})
    return {"obs": obs, "stats": {"tasks": 1, "depth": depth}}


def run_foreign_thread(req):
    """A plain thread calls trio.from_thread.run(afn, trio_token=token): extract(thread) must continue from the
    thread's frames into the Trio task serving the call.  Looked at from the Trio run that serves it, from a
    plain (non-Trio) thread, and - with `two_runs` - from the thread of a second, unrelated Trio run."""
    levels = []
    out = {}
    served = threading.Event()
    release = threading.Event()
    box = {}

    async def served_fn():
        levels.append(sys._getframe())
        box["served_frame"] = sys._getframe()
        served.set()
        await trio.sleep_forever()

    def foreign_fn():
        levels.append(sys._getframe())
        try:
            trio.from_thread.run(served_fn, trio_token=box["token"])
        except BaseException as ex:
            box["foreign_exc"] = repr(ex)

    def look(tag):
        with warnings.catch_warnings(record=True) as w:
            warnings.simplefilter("always")
            try:
                st = extract(box["thread"])
            except BaseException as ex:
                out[tag] = {"raised": repr(ex)}
                return
        out[tag] = {"st": st, "w": [str(x.message)[:150] for x in w]}

    async def run_a():
        box["token"] = trio.lowlevel.current_trio_token()
        box["thread"] = threading.Thread(target=foreign_fn, daemon=True)
        box["thread"].start()
        while not served.is_set():
            await trio.sleep(0.005)
        await trio.testing.wait_all_tasks_blocked()
        look("same_run")
        box["a_ready"] = True
        # keep run A alive while the other observers look
        while not release.is_set():
            await trio.sleep(0.005)
        # let the served task finish so the foreign thread returns
        for t in trio.lowlevel.current_root_task().child_nurseries[0].child_tasks:
            pass
        raise_cancel[0] = True

    raise_cancel = [False]

    async def main_a():
        async with trio.open_nursery() as n:
            n.start_soon(run_a)
            while not raise_cancel[0]:
                await trio.sleep(0.005)
            # cancel everything, including the system task serving the foreign thread
            trio.lowlevel.current_root_task().child_nurseries[0].cancel_scope.cancel()

    ta = threading.Thread(target=lambda: _swallow(lambda: trio.run(main_a)), daemon=True)
    ta.start()
    import time
    for _ in range(6000):
        if box.get("a_ready"):
            break
        time.sleep(0.005)
    else:
        release.set()
        return {"harness_error": "Trio run A did not get ready"}
    look("plain_thread")

    async def main_b():
        look("other_trio_run")

    try:
        trio.run(main_b)
    finally:
        release.set()
        ta.join(30)
    obs = []
    for tag, r in out.items():
        if "raised" in r:
            obs.append({"kind": "extract_raised", "tag": tag, "exc": r["raised"]})
            continue
        st = r["st"]
        if st.error is not None:
            obs.append({"kind": "error", "tag": tag, "exc": repr(st.error)})
        mine = [f.pyframe for f in st.frames if f.filename == HERE and f.funcname in ("foreign_fn", "served_fn")]
        if mine != levels:
            obs.append({"kind": "foreign_thread_does_not_continue_into_serving_task", "tag": tag,
                        "got": [f.f_code.co_name for f in mine], "all": [[f.funcname, f.hide] for f in st.frames]})
        if r["w"]:
            obs.append({"kind": "warning", "tag": tag, "msgs": r["w"]})
    return {"obs": obs[:6], "stats": {"tasks": len(out), "depth": 1}}


def _swallow(fn):
    try:
        fn()
    except BaseException:
        pass


def run_first(req):
    """The FIRST extraction of the process (the Trio glue is still pending: stackscope was imported before trio) is made
    from a given place: inside a task, from an Instrument hook on the Trio thread between task steps (a runner but no
    current task), from a worker thread, or outside the run.  Whatever the place, the glue must install cleanly (no
    warning) and that extraction - and the next one - must show the nursery and its children."""
    from stackscope import _glue
    mode = req["mode"]
    if "trio" not in _glue.builtin_glue_pending:
        return {"harness_error": "not a fresh process: the Trio glue is no longer pending"}
    box = {"obs": [], "n": 0}

    def look(tag):
        with warnings.catch_warnings(record=True) as w:
            warnings.simplefilter("always")
            try:
                st = extract(box["task"], recurse_child_tasks=True)
            except BaseException as ex:
                box["obs"].append({"kind": "first_extraction_raised", "where": tag, "exc": repr(ex)})
                return
        box["n"] += 1
        for x in w:
            box["obs"].append({"kind": "first_extraction_warning", "where": tag, "msg": str(x.message)[:200]})
        if st.error is not None:
            box["obs"].append({"kind": "first_extraction_error", "where": tag, "exc": repr(st.error)})
        nz = []
        nursery_contexts(st, nz)
        kids = [len([c for c in n.children if isinstance(c, Stack) and c.frames]) for n in nz]
        if not kids or kids[0] != 2:     # (the task-mode and 'later' looks are made from a child of a second nursery)
            box["obs"].append({"kind": "first_extraction_tree", "where": tag, "nurseries_with_children": kids,
                               "frames": [f.funcname for f in st.frames][:8]})

    class Inst(trio.abc.Instrument):
        def __init__(self, which):
            self.which, self.done = which, False

        def _fire(self):
            if not self.done and "task" in box and box.get("armed"):
                self.done = True
                look("instrument:" + self.which)

        def before_io_wait(self, timeout):
            if self.which == "before_io_wait":
                self._fire()

        def after_task_step(self, task):
            if self.which == "after_task_step":
                self._fire()

    async def sleeper():
        await trio.sleep_forever()

    async def main():
        box["task"] = trio.lowlevel.current_task()
        async with trio.open_nursery() as n:
            n.start_soon(sleeper)
            n.start_soon(sleeper)
            await trio.testing.wait_all_tasks_blocked(0.01)
            box["armed"] = True
            if mode == "task":
                async def looker():
                    look("task")
                async with trio.open_nursery() as n2:
                    n2.start_soon(looker)
            elif mode == "thread":
                await trio.to_thread.run_sync(look, "thread")
            else:
                await trio.sleep(0.05)
            box["armed"] = False
            if mode != "task":
                # a later extraction, made from an ordinary place, must be right as well
                async def looker2():
                    look("later")
                async with trio.open_nursery() as n2:
                    n2.start_soon(looker2)
            n.cancel_scope.cancel()

    if mode == "main_thread_outside":
        # Trio runs in a background thread; the program's main thread, which has a wakeup fd of its own installed for
        # signals (as asyncio's add_signal_handler or a GUI toolkit does), makes the first extraction
        import signal
        import socket
        a, b = socket.socketpair()
        a.setblocking(False)
        b.setblocking(False)
        old_fd = signal.set_wakeup_fd(a.fileno())
        ready, release = threading.Event(), threading.Event()

        async def bg_main():
            box["task"] = trio.lowlevel.current_task()
            async with trio.open_nursery() as n:
                n.start_soon(sleeper)
                n.start_soon(sleeper)
                await trio.testing.wait_all_tasks_blocked(0.01)
                ready.set()
                await trio.to_thread.run_sync(release.wait)
                n.cancel_scope.cancel()

        th = threading.Thread(target=trio.run, args=(bg_main,), daemon=True)
        th.start()
        try:
            if not ready.wait(30):
                return {"harness_error": "background Trio run did not get going"}
            look("main_thread_outside")
            look("later")
        finally:
            release.set()
            th.join(30)
            signal.set_wakeup_fd(old_fd)
            a.close()
            b.close()
        return {"obs": box["obs"][:6], "stats": {"observations": box["n"]}}
    insts = [Inst(mode)] if mode in ("before_io_wait", "after_task_step") else []
    trio.run(main, instruments=insts)
    if box["n"] == 0:
        return {"harness_error": "no extraction was made in mode %r" % mode}
    return {"obs": box["obs"][:6], "stats": {"observations": box["n"]}}


def handle(req):
    op = req["op"]
    if op == "triotree.first":
        return run_first(req)
    if op == "triotree.foreign":
        return run_foreign_thread(req)
    if op == "triotree.tree":
        return run_tree(req)
    if op == "triotree.pingpong":
        return run_pingpong(req)
    raise AssertionError(op)
