"""G3 hook world (worker side): a pool of real frames from distinct code objects, synthetic stack items
with table-driven unwrap results, table-driven elaborate_frame hooks.  Pure stdlib, Python 3.9 syntax.

Ops:  hooks.c10  - run extract() on an item tree with per-frame elaborate results, report frames/leaf/error
"""
import sys
import collections
import warnings

import stackscope
from stackscope import extract, unwrap_stackitem, elaborate_frame, yields_frames, PRUNE

K = 64
POOL = []      # (generator, function)
ELAB = {}      # pool index -> elab spec for the current case
LOG = []       # hook invocation log for the current case
FAULT = {}     # (site, k) -> exception to raise (C05)
COUNT = {}


def _mk_pool():
    for i in range(K):
        ns = {}
        exec("def F%d():\n    yield\n" % i, ns)
        fn = ns["F%d" % i]
        g = fn()
        next(g)
        POOL.append((g, fn))
        elaborate_frame.register(fn, _make_elab(i))


OWN = []       # C16: suspended generator / coroutine / async generator objects (kind = index % 3), functions G<i>
NOWN = 24
ELAB16 = {}    # owner index -> elaborate result spec for the current case


@__import__("types").coroutine
def _susp():
    yield


def _mk_own():
    for i in range(NOWN):
        ns = {"_susp": _susp}
        src = ["def G%d():\n    yield\n", "async def G%d():\n    await _susp()\n", "async def G%d():\n    yield\n"][i % 3] % i
        exec(src, ns)
        fn = ns["G%d" % i]
        o = fn()
        if i % 3 == 0:
            next(o)
        elif i % 3 == 1:
            o.send(None)
        else:
            try:
                o.asend(None).send(None)
            except StopIteration:
                pass
        OWN.append((o, fn))
        elaborate_frame.register(fn, _make_elab16(i))


def _make_elab16(idx):
    def hook(frame, next_inner):
        e = ELAB16.get(str(idx), ["none"])
        LOG.append(["elab16", idx, e[0]])
        if e[-1] == "hidden":
            frame.hide = True        # as customize(hide=True) would do
            e = e[:-1]
        if e[0] == "none":
            return None
        if e[0] == "replace":
            return [realize(n) for n in e[1]]
        if e[0] == "replace1":
            return realize(e[1][0])
        if e[0] == "insert":
            return [realize(n) for n in e[1]] + [next_inner]
        raise AssertionError(e)
    return hook


class Item:
    def __init__(self, spec):
        self.spec = spec
        self.name = spec.get("name")
        self.own_list = None      # a hook that answers with a list hands out ITS list, the same one every time

    def __repr__(self):
        return "<I%s>" % self.name

    def __len__(self):   # every other item is falsy (an "empty" container-like stack item is still a stack item)
        return 0 if isinstance(self.name, int) and self.name % 2 else 1


ITEMS = {}   # name -> Item for the current case (so that the same node always realizes to the same object)


def realize(node):
    if node is None:
        return None
    if "f" in node:
        return POOL[node["f"]][0].gi_frame
    if "g" in node:
        return OWN[node["g"]][0]
    name = node["name"]
    it = ITEMS.get(name)
    if it is None:
        it = ITEMS[name] = Item(node)
    return it


class StillUnwrapping(BaseException):
    """raised by the harness's own hook once an extraction has made far more unwrap calls than the documented guard
    (100 steps without progress) could allow: the bounded, clock-free way of observing 'it would hang'"""


def _unwrap_item(it):
    s = it.spec
    u = s["u"]
    LOG.append(["unwrap", it.name])
    if len(LOG) > 20000:
        raise StillUnwrapping("%d hook calls in one extraction" % len(LOG))
    if u == "none":
        return None
    if u == "one":
        return realize(s["ch"][0])
    if u == "tuple":
        return tuple(realize(c) for c in s["ch"])
    if u == "deque":
        # any Sequence is a sequence of stack items, also one that cannot be sliced
        return collections.deque(realize(c) for c in s["ch"])
    if u == "list":
        if it.own_list is None:
            it.own_list = [realize(c) for c in s["ch"]]
        return it.own_list
    if u == "empty":
        return ()
    if u == "emptylist":
        return []
    if u == "emptyiter":
        @yields_frames
        def nothing():
            return
            yield
        return nothing()
    if u == "iter":
        @yields_frames
        def gen():
            for c in s["ch"]:
                yield realize(c)
        return gen()
    if u == "self":
        return it
    if u == "selfpair":
        # a cycle that branches: every step yields the item itself twice (no frame ever comes out)
        return (it, it)
    if u == "selfpair_list":
        return [it, it]
    if u == "selfpair_iter":
        @yields_frames
        def gen2():
            yield it
            yield it
        return gen2()
    if u == "raise":
        raise ValueError("boom-%s" % it.name)
    if u == "cycle":
        return realize(s["ch"][0])
    raise AssertionError(u)


def _make_elab(idx):
    def hook(frame, next_inner):
        e = ELAB.get(str(idx), ["none"])
        LOG.append(["elab", idx, e[0]])
        k = e[0]
        if k == "none":
            return None
        if k == "prune":
            return PRUNE
        if k == "empty":
            return []
        if k == "replace":
            return [realize(n) for n in e[1]]
        if k == "replace_tuple":
            return tuple(realize(n) for n in e[1])
        if k == "replace1":
            return realize(e[1])
        if k == "insert":
            return [realize(n) for n in e[1]] + [next_inner]
        if k == "insert_tuple":
            return tuple(realize(n) for n in e[1]) + (next_inner,)
        if k == "insert_deque":
            return collections.deque([realize(n) for n in e[1]] + [next_inner])
        if k == "replace_deque":
            return collections.deque(realize(n) for n in e[1])
        if k == "self":
            return next_inner
        if k == "self_list":
            return [next_inner]
        if k == "self_tuple":
            return (next_inner,)
        raise AssertionError(k)
    return hook


_inited = False


def init():
    global _inited
    if not _inited:
        _mk_pool()
        _mk_own()
        unwrap_stackitem.register(Item, _unwrap_item)
        _inited = True


def describe_leaf(leaf):
    if leaf is None:
        return None
    if isinstance(leaf, Item):
        return leaf.name
    if isinstance(leaf, list):
        return [describe_leaf(x) for x in leaf]
    if isinstance(leaf, stackscope.Frame):
        name = leaf.funcname
        return {"frame_as_leaf": int(name[1:]) if name[:1] == "F" and name[1:].isdigit() else name}
    return {"other": repr(leaf)[:80]}


def run_c10(req):
    init()
    ELAB.clear()
    ELAB.update(req["elab"])
    ITEMS.clear()
    del LOG[:]
    root = realize(req["root"])
    res = {}
    with warnings.catch_warnings(record=True) as w:
        warnings.simplefilter("always")
        try:
            st = extract(root, with_contexts=req.get("with_contexts", False))
        except BaseException as ex:
            res["raised"] = repr(ex)
            st = None
    if st is not None:
        frames = []
        for f in st.frames:
            name = f.funcname
            frames.append(int(name[1:]) if name[:1] == "F" and name[1:].isdigit() else name)
        res["frames"] = frames
        res["leaf"] = describe_leaf(st.leaf)
        res["error"] = None if st.error is None else repr(st.error)[:400]
        res["root_ok"] = st.root is root
        # what the hooks handed out is theirs: it must come back unchanged, and a second extraction of the same tree (same
        # item objects, same hook answers) must give the same result
        for it in list(ITEMS.values()):
            if it.own_list is not None and it.own_list != [realize(c) for c in it.spec["ch"]]:
                res["hook_result_modified"] = repr(it)
        if st.error is None and "raised" not in res and len(LOG) < 5000:
            try:
                st_again = extract(root, with_contexts=req.get("with_contexts", False))
                again = ([f.funcname for f in st_again.frames], describe_leaf(st_again.leaf), repr(st_again.error))
                first = ([f.funcname for f in st.frames], res["leaf"], "None")
                if again != first:
                    res["second_extraction_differs"] = {"first": first, "second": again}
            except BaseException as ex:
                res["second_extraction_differs"] = {"raised": repr(ex)}
    res["warnings"] = [str(x.message)[:200] for x in w]
    res["nlog"] = len(LOG)
    ELAB.clear()
    ITEMS.clear()
    return res


def run_c16(req):
    """extract_outermost(x) vs extract(x) on custom item trees (no elaborate hooks)."""
    init()
    ELAB.clear()
    ELAB16.clear()
    ELAB16.update(req.get("elab16") or {})
    ITEMS.clear()
    del LOG[:]
    root = realize(req["root"])
    obs = []
    st = extract(root)
    stats = {"frames": len(st.frames), "error": st.error is not None,
             "owned": 0, "owned_after_redirect": 0}
    try:
        fo = stackscope.extract_outermost(root)
    except BaseException as ex:
        if st.frames:
            obs.append({"kind": "outermost_raised_but_frames_exist", "exc": repr(ex)})
        elif st.error is not None:
            # "re-raising the recorded error": the same kind of object extract() recorded - the single exception, or
            # the group of all of them when several items failed
            def shape(e):
                return (type(e).__name__, str(e), [shape(x) for x in getattr(e, "exceptions", ())])
            if shape(ex) != shape(st.error):
                obs.append({"kind": "outermost_raised_other_error", "exc": repr(ex), "recorded": repr(st.error)})
            stats["outermost_reraised_group"] = 1 if getattr(st.error, "exceptions", None) else 0
        elif not isinstance(ex, Exception):
            obs.append({"kind": "outermost_raised_baseexception", "exc": repr(ex)})
    else:
        if not st.frames:
            obs.append({"kind": "outermost_did_not_raise", "got": fo.funcname})
        else:
            a = st.frames[0]
            if not (fo.pyframe is a.pyframe and fo.lineno == a.lineno and fo.contexts == a.contexts
                    and fo.hide == a.hide and fo.hide_line == a.hide_line and fo.origin is a.origin):
                obs.append({"kind": "outermost_differs", "got": fo.funcname, "exp": a.funcname})
    redirected = False
    for f in st.frames:
        name = f.funcname
        if name[:1] == "G" and name[1:].isdigit():
            # looked inside a suspended generator / coroutine / async generator: that object is the origin, however the
            # trace got to it (the item tree, a replacement or an insertion made by an elaborate_frame hook)
            idx = int(name[1:])
            stats["owned"] += 1
            stats["owned_after_redirect"] += 1 if redirected else 0
            if f.origin is not OWN[idx][0]:
                obs.append({"kind": "origin_is_not_owner", "frame": name, "after_redirect": redirected,
                            "origin": repr(f.origin)[:80]})
            if ELAB16.get(str(idx), ["none"])[0] != "none":
                redirected = True
            try:
                if stackscope.extract_outermost(OWN[idx][0]).pyframe is not f.pyframe:
                    obs.append({"kind": "origin_recovers_other_frame", "frame": name})
            except BaseException as ex:
                obs.append({"kind": "origin_contract_raised", "frame": name, "exc": repr(ex)})
            continue
        if name == "_susp":
            if f.origin is None or getattr(f.origin, "gi_frame", None) is not f.pyframe:
                obs.append({"kind": "origin_is_not_owner", "frame": name, "origin": repr(f.origin)[:80]})
            continue
        if f.origin is not None:
            import weakref
            try:
                weakref.ref(f.origin)
                if stackscope.extract_outermost(f.origin).pyframe is not f.pyframe:
                    obs.append({"kind": "origin_recovers_other_frame", "frame": f.funcname})
            except BaseException as ex:
                obs.append({"kind": "origin_contract_raised", "frame": f.funcname, "exc": repr(ex)})
            own = POOL[int(f.funcname[1:])][0]
            if f.origin is not own:
                obs.append({"kind": "origin_is_not_owner", "frame": f.funcname})
    ITEMS.clear()
    ELAB16.clear()
    return {"obs": obs, "stats": stats}


def handle(req):
    op = req["op"]
    if op == "hooks.c10":
        return run_c10(req)
    if op == "hooks.c16":
        return run_c16(req)
    raise AssertionError(op)
