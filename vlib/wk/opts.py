"""C13 (worker side): extraction options are scoped to their call tree and thread.

A node of the generated call tree is one API invocation (extract / extract_outermost / extract_child /
fill_context) with its own option pair; its children are invoked from inside the hook that the invocation
triggers.  What options are in force is *observed through public behaviour only*.
Pure stdlib + stackscope, Python 3.9 syntax.
"""
import sys
import threading
import warnings

import stackscope
from stackscope import (Context, elaborate_context, extract, extract_child, extract_outermost, fill_context,
                        unwrap_stackitem)

from vlib.wk.sched import Coop, HarnessTimeout


class CM:
    def __enter__(self):
        return self

    def __exit__(self, *a):
        pass


def target_gen():
    with CM():
        yield


TG = target_gen()
next(TG)   # a frame with one active manager: contexts non-empty iff with_contexts


class Task:
    pass


TASK = Task()


@unwrap_stackitem.register(Task)
def _unwrap_task(t):
    return TG


class Boom(BaseException):
    pass


class Boom2(Exception):
    pass


class Run:
    """per-thread execution state"""

    def __init__(self, coop=None, idx=0, shared=None):
        self.bad = []
        self.coop = coop
        self.idx = idx
        self.stack = []     # options of the enclosing invocations on this thread (the model)
        self.shared = shared
        self.obs = 0
        self.levels_differ = False


CUR = threading.local()


def observe():
    """(with_contexts, recurse_child_tasks) as visible through public behaviour; None outside an extraction."""
    try:
        stub = extract_child(TASK, for_task=True)
    except RuntimeError:
        return None
    if stub.root is not TASK or stub.leaf is not None or stub.error is not None:
        CUR.run.bad.append(["stub_fields", repr(stub)])
    rec = bool(stub.frames)
    try:
        full = extract_child(TG, for_task=False)
    except RuntimeError:
        # no extraction is open after all: then the for_task=True call above should have been refused as well
        CUR.run.bad.append(["extract_child_for_task_did_not_refuse_outside_any_extraction"])
        return None
    if not full.frames or full.frames[0].pyframe is not TG.gi_frame:
        CUR.run.bad.append(["frames_changed_by_options", len(full.frames)])
        return ("?", rec)
    wc = bool(full.frames[0].contexts)
    return (wc, rec)


def expect_now(run):
    return run.stack[-1] if run.stack else None


def body(node, run):
    """What runs inside the hook triggered by `node`'s invocation."""
    exp = expect_now(run)
    if run.coop:
        if run.shared is not None:
            run.shared[run.idx] = exp
            live = [v for v in run.shared.values() if v is not None]
            if len(set(live)) >= 2:
                run.coop.overlaps += 1
        run.coop.point("hook_entry")
    got = observe()
    run.obs += 1
    if got != exp:
        run.bad.append(["at_hook_entry", node["kind"], got, exp])
    for kid in node["kids"]:
        invoke(kid, run)
        if run.coop:
            run.coop.point("after_child")
        got = observe()
        run.obs += 1
        if got != exp:
            run.bad.append(["after_child_returned", kid["kind"], kid.get("boom"), got, exp])
    if node.get("boom") == "base":
        raise Boom()
    if node.get("boom") == "exc":
        raise Boom2("boom")


class Item:
    def __init__(self, node, run):
        self.node, self.run = node, run


@unwrap_stackitem.register(Item)
def _unwrap_item(it):
    body(it.node, it.run)
    return None


class FillMgr:
    def __init__(self, node, run):
        self.node, self.run = node, run

    def __enter__(self):
        return self

    def __exit__(self, *a):
        return False


@elaborate_context.register(FillMgr)
def _elab_fill(m, ctx):
    body(m.node, m.run)


from contextlib import contextmanager as _contextmanager


@_contextmanager
def gcm_wrapper(node, run):
    """a generator-based manager whose body holds the manager that runs the node's body: the hook is reached through the
    contextlib glue's extraction of the generator, which must carry the caller's options along"""
    with FillMgr(node, run):
        yield


@_contextmanager
def gcm_wrapper_x(node, run):
    """the same, looked at while it is EXITING: the glue then finds the generator's frame with a helper extraction of its own
    (only for generators that have an unwrap_context_generator hook), and the hooks below that are still hooks invoked
    within the enclosing call"""
    with FillMgr(node, run):
        yield


stackscope.unwrap_context_generator.register(gcm_wrapper_x, lambda frame, context: None)


def slice_holder(node, run, how):
    """outermost frame of a slice of the RUNNING stack; its elaborate_frame hook is what runs the node's body"""
    here = sys._getframe()
    return slice_inner(node, run, how, here)


def slice_inner(node, run, how, outer):
    me = sys._getframe()
    kw = dict(with_contexts=node["wc"], recurse_child_tasks=node["rc"])
    if how == "since":
        return stackscope.extract_since(outer, **kw)
    if how == "until_int":
        return stackscope.extract_until(me, limit=2, **kw)
    if how == "until_frame":
        return stackscope.extract_until(me, limit=outer, **kw)
    if how == "slice":
        return extract(stackscope.StackSlice(outer=outer, inner=me), **kw)
    raise AssertionError(how)


@stackscope.elaborate_frame.register(slice_holder)
def _elab_slice_holder(frame, next_inner):
    lo = frame.pyframe.f_locals
    body(lo["node"], lo["run"])


SLICE_KINDS = ("since", "until_int", "until_frame", "slice")


def invoke(node, run):
    outer = expect_now(run)
    kind = node["kind"]
    mine = (node["wc"], node["rc"])
    try:
        if kind == "extract":
            run.stack.append(mine)
            if outer is not None and outer != mine:
                run.levels_differ = True
            try:
                st = extract(Item(node, run), with_contexts=node["wc"], recurse_child_tasks=node["rc"])
                if node.get("boom") == "exc" and st.error is None:
                    run.bad.append(["exception_in_hook_not_reported", kind])
            finally:
                run.stack.pop()
        elif kind in SLICE_KINDS:
            # the other public entry points: slices of the running stack take the same two options
            run.stack.append(mine)
            if outer is not None and outer != mine:
                run.levels_differ = True
            try:
                st = slice_holder(node, run, kind)
                if not st.frames or st.frames[0].pyframe.f_code is not slice_holder.__code__:
                    run.bad.append(["slice_entry_point_lost_its_outer_frame", kind, [f.funcname for f in st.frames][:4]])
                if node.get("boom") == "exc" and st.error is None:
                    run.bad.append(["exception_in_hook_not_reported", kind])
            finally:
                run.stack.pop()
        elif kind == "outermost":
            run.stack.append(mine)
            if outer is not None and outer != mine:
                run.levels_differ = True
            try:
                try:
                    extract_outermost(Item(node, run), with_contexts=node["wc"], recurse_child_tasks=node["rc"])
                    run.bad.append(["outermost_did_not_raise", kind])
                except Boom2:
                    pass
                except RuntimeError as ex:
                    if type(ex) is not RuntimeError or "extract a frame" not in str(ex):
                        raise
            finally:
                run.stack.pop()
        elif kind == "child":
            if outer is None:
                try:
                    extract_child(Item(node, run), for_task=False)
                    run.bad.append(["extract_child_allowed_outside_extraction"])
                except RuntimeError as ex:
                    if type(ex) is not RuntimeError:
                        raise
            else:
                extract_child(Item(node, run), for_task=False)
        elif kind in ("gcm", "gcmx"):
            cur = outer if outer is not None else (True, False)
            if cur[0]:       # with_contexts off: the generator's frame is not analysed, its manager's hook never runs
                pushed = outer is None
                if pushed:
                    run.stack.append((True, False))
                mgr = gcm_wrapper(node, run) if kind == "gcm" else gcm_wrapper_x(node, run)
                mgr.__enter__()
                try:
                    fill_context(Context(obj=mgr, is_async=False, is_exiting=(kind == "gcmx")))
                finally:
                    if pushed:
                        run.stack.pop()
                    try:
                        mgr.gen.close()
                    except BaseException:
                        pass
        elif kind == "fill":
            pushed = outer is None
            if pushed:
                run.stack.append((True, False))
            try:
                fill_context(Context(obj=FillMgr(node, run), is_async=False))
            finally:
                if pushed:
                    run.stack.pop()
        else:
            raise AssertionError(kind)
    except Boom:
        pass
    except Boom2:
        # (fill_context itself raises what a context hook raised - directly, or, for an exiting generator-based manager, as
        # the error its helper extraction ran into)
        if kind not in ("fill", "gcm", "gcmx"):
            run.bad.append(["ordinary_exception_escaped", kind])
    except Exception as ex:
        run.bad.append(["api_raised", kind, repr(ex)[:200]])


def run_tree(tree, run):
    CUR.run = run
    invoke(tree, run)
    got = observe()
    if got is not None:
        run.bad.append(["options_leaked_after_tree", got])
    try:
        extract_child(TG, for_task=False)
        run.bad.append(["extract_child_allowed_after_tree"])
    except RuntimeError:
        pass


def run_single(req):
    run = Run()
    with warnings.catch_warnings():
        warnings.simplefilter("ignore")
        run_tree(req["tree"], run)
    return {"obs": [{"kind": b[0], "detail": b} for b in run.bad[:5]],
            "stats": {"observations": run.obs, "levels_differ": run.levels_differ}}


def run_threads(req):
    trees = req["trees"]
    n = len(trees)
    coop = Coop(n)
    shared = {}
    runs = [Run(coop, i, shared) for i in range(n)]
    errs = []

    def main(i):
        coop.attach(i)
        try:
            coop.point("start")
            run_tree(trees[i], runs[i])
            shared[i] = None
        except HarnessTimeout as ex:
            errs.append(repr(ex))
        except BaseException as ex:
            runs[i].bad.append(["thread_raised", repr(ex)])
        finally:
            shared[i] = None
            coop.finish(i)

    ths = [threading.Thread(target=main, args=(i,), daemon=True) for i in range(n)]
    for t in ths:
        t.start()
    try:
        coop.run(req["schedule"])
    except HarnessTimeout as ex:
        return {"harness_error": repr(ex)}
    for t in ths:
        t.join(30)
    if errs:
        return {"harness_error": errs[0]}
    # the main thread must be outside any extraction, whatever the others did
    try:
        extract_child(TG, for_task=False)
        leaked = True
    except RuntimeError:
        leaked = False
    obs = []
    if leaked:
        obs.append({"kind": "options_visible_on_uninvolved_thread", "detail": None})
    for r in runs:
        for b in r.bad[:3]:
            obs.append({"kind": b[0], "detail": b, "thread": r.idx})
    return {"obs": obs, "stats": {"observations": sum(r.obs for r in runs), "overlaps": coop.overlaps,
                                  "steps": len(coop.trace), "levels_differ": any(r.levels_differ for r in runs)}}


def handle(req):
    op = req["op"]
    if op == "opts.single":
        return run_single(req)
    if op == "opts.threads":
        return run_threads(req)
    raise AssertionError(op)
