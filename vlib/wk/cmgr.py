"""Standard-library / C-implemented managers (worker side): the with-programs of G1 use harness classes whose
enter/exit methods log into a shadow stack; a manager implemented in C (threading.Lock, io objects, memoryview,
decimal contexts) cannot log, and its exit method on the value stack is a builtin method, not a bound method.
Here the program shape is a linear nest, so the set of active managers at each suspension point is known
statically.  Pure stdlib + stackscope, Python 3.9 syntax.
"""
import contextlib
import decimal
import io
import linecache
import sys
import tempfile
import threading
import types
import warnings

from stackscope import extract
from stackscope.lowlevel import contexts_active_in_frame, set_trickery_enabled

PY = sys.version_info[:2]


class PyM:
    def __enter__(self):
        return self

    def __exit__(self, *a):
        return False


class PyAM:
    async def __aenter__(self):
        return self

    async def __aexit__(self, *a):
        return False


async def _agen_for_closing():
    yield 1


def _mk_sync(kind):
    if kind == "lock":
        return threading.Lock()
    if kind == "rlock":
        return threading.RLock()
    if kind == "stringio":
        return io.StringIO()
    if kind == "bytesio":
        return io.BytesIO(b"x")
    if kind == "memoryview":
        return memoryview(b"abc")
    if kind == "localcontext":
        return decimal.localcontext()
    if kind == "nullcontext":
        return contextlib.nullcontext(5)
    if kind == "suppress":
        return contextlib.suppress(KeyError)
    if kind == "closing":
        return contextlib.closing(io.StringIO())
    if kind == "exitstack":
        return contextlib.ExitStack()
    if kind == "condition":
        return threading.Condition()
    if kind == "semaphore":
        return threading.Semaphore(2)
    if kind == "tempfile":
        return tempfile.TemporaryFile()
    if kind == "redirect":
        return contextlib.redirect_stdout(io.StringIO())
    if kind == "pym":
        return PyM()
    raise AssertionError(kind)


def _mk_async(kind):
    if kind == "apym":
        return PyAM()
    if kind == "aexitstack":
        return contextlib.AsyncExitStack()
    if kind == "anull" and PY >= (3, 10):
        return contextlib.nullcontext(6)
    if kind == "aclosing" and PY >= (3, 10):
        return contextlib.aclosing(_agen_for_closing())
    return PyAM()


C_IMPLEMENTED = ("lock", "rlock", "stringio", "bytesio", "memoryview", "localcontext", "tempfile")


@types.coroutine
def trap(v):
    yield v


NSRC = [0]


def render(ir):
    kind = ir["kind"]
    head = {"gen": "def f(mk):", "coro": "async def f(mk):", "agen": "async def f(mk):"}[kind]
    lines = [head]
    expect = []      # per suspension point: indices of the managers that are active there

    def susp(ind, active):
        k = len(expect)
        expect.append(list(active))
        if kind == "coro":
            lines.append("    " * ind + "await trap(%d)" % k)
        else:
            lines.append("    " * ind + "yield %d" % k)

    active = []
    n = 0
    ind = 1
    opened = []
    for w in ir["withs"]:
        parts = []
        mine = []
        for it in w["items"]:
            parts.append("mk(%d)%s" % (n, (" as v%d" % n) if it["as"] else ""))
            mine.append(n)
            n += 1
        is_async = w["async"] and kind != "gen"
        lines.append("    " * ind + ("async with " if is_async else "with ") + ", ".join(parts) + ":")
        ind += 1
        active = active + mine
        opened.append(mine)
        susp(ind, active)
    # leave the blocks one by one, suspending after each
    while opened:
        mine = opened.pop()
        ind -= 1
        active = active[:len(active) - len(mine)]
        susp(ind, active)
    src = "\n".join(lines) + "\n"
    return src, expect


def run(req):
    ir = req["ir"]
    kind = ir["kind"]
    src, expect = render(ir)
    NSRC[0] += 1
    fname = "<cmgr-%d>" % NSRC[0]
    linecache.cache[fname] = (len(src), None, src.splitlines(True), fname)
    ns = {"trap": trap}
    exec(compile(src, fname, "exec"), ns)
    items = []
    for w in ir["withs"]:
        is_async = w["async"] and kind != "gen"
        for it in w["items"]:
            items.append((it["k"], is_async, it["as"]))
    made = {}

    def mk(i):
        k, is_async, _as = items[i]
        if not is_async and k in ("apym", "aexitstack", "anull", "aclosing"):
            k = "pym"      # an async item of a program whose kind (plain generator) has no `async with`
        made[i] = _mk_async(k) if is_async else _mk_sync(k)
        return made[i]

    obj = ns["f"](mk)
    obs = []
    stats = {"points": 0, "c_implemented_active": 0, "max_active": 0}

    def step():
        try:
            if kind == "gen":
                return next(obj)
            if kind == "coro":
                return obj.send(None)
            return obj.asend(None).send(None)
        except StopIteration as ex:
            if kind == "agen" and ex.args:
                return ex.args[0]
            return "done"
        except StopAsyncIteration:
            return "done"

    for j in range(len(expect) + 2):
        v = step()
        if v == "done":
            break
        if v != j:
            return {"harness_error": "suspension %r where %r was expected\n%s" % (v, j, src)}
        want = [made[i] for i in expect[j]]
        stats["points"] += 1
        stats["max_active"] = max(stats["max_active"], len(want))
        stats["c_implemented_active"] += sum(1 for i in expect[j] if items[i][0] in C_IMPLEMENTED)
        for mode in ("trick", "ref"):
            set_trickery_enabled(mode == "trick")
            try:
                with warnings.catch_warnings(record=True) as w:
                    warnings.simplefilter("always")
                    try:
                        st = extract(obj)
                    except BaseException as ex:
                        obs.append({"kind": mode + ".raised", "at": j, "exc": repr(ex)})
                        continue
            finally:
                set_trickery_enabled(None)
            for x in w:
                obs.append({"kind": mode + ".warning", "at": j, "msg": str(x.message)[:200]})
            if st.error is not None or not st.frames:
                obs.append({"kind": mode + ".error", "at": j, "exc": repr(st.error)})
                continue
            ctxs = st.frames[0].contexts
            got = [c.obj for c in ctxs]
            if len(got) != len(want) or any(a is not b for a, b in zip(got, want)):
                obs.append({"kind": mode + ".managers", "at": j, "got": [type(o).__name__ for o in got],
                            "want": [type(o).__name__ for o in want]})
                continue
            for c, i in zip(ctxs, expect[j]):
                if bool(c.is_async) != items[i][1] or c.is_exiting:
                    obs.append({"kind": mode + ".flags", "at": j, "item": i, "is_async": c.is_async,
                                "is_exiting": c.is_exiting})
                if mode == "trick":
                    wantname = ("v%d" % i) if items[i][2] else None
                    if c.varname != wantname:
                        obs.append({"kind": "trick.varname", "at": j, "item": i, "got": c.varname, "want": wantname})
            del st, ctxs
    else:
        return {"harness_error": "program did not finish\n" + src}
    res = {"obs": obs[:6], "stats": stats}
    if obs:
        res["src"] = src
    return res


def handle(req):
    if req["op"] == "cmgr.run":
        return run(req)
    raise AssertionError(req["op"])
