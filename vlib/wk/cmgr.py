"""Standard-library / C-implemented managers (worker side): the with-programs of G1 use harness classes whose
enter/exit methods log into a shadow stack; a manager implemented in C (threading.Lock, io objects, memoryview,
decimal contexts) cannot log, and its exit method on the value stack is a builtin method, not a bound method.
Here the program shape is a linear nest, so the set of active managers at each suspension point is known
statically.  Pure stdlib + stackscope, Python 3.9 syntax.
"""
import contextlib
import decimal
import io
import linecache
import sys
import tempfile
import threading
import types
import warnings

from stackscope import extract
from stackscope.lowlevel import contexts_active_in_frame, set_trickery_enabled

PY = sys.version_info[:2]


class PyM:
    def __enter__(self):
        return self

    def __exit__(self, *a):
        return False


class PyAM:
    async def __aenter__(self):
        return self

    async def __aexit__(self, *a):
        return False


class PyAMX(PyAM):
    """its __aexit__ suspends: the frame can be looked at while this manager is exiting"""
    idx = None

    async def __aexit__(self, *a):
        await trap(["x", self.idx])
        return False


REENTRANT = ("pym", "rlock", "nullcontext", "suppress", "apym", "apym_sx", "anull")


async def _agen_for_closing():
    yield 1


def _mk_sync(kind):
    if kind == "lock":
        return threading.Lock()
    if kind == "rlock":
        return threading.RLock()
    if kind == "stringio":
        return io.StringIO()
    if kind == "bytesio":
        return io.BytesIO(b"x")
    if kind == "memoryview":
        return memoryview(b"abc")
    if kind == "localcontext":
        return decimal.localcontext()
    if kind == "nullcontext":
        return contextlib.nullcontext(5)
    if kind == "suppress":
        return contextlib.suppress(KeyError)
    if kind == "closing":
        return contextlib.closing(io.StringIO())
    if kind == "exitstack":
        return contextlib.ExitStack()
    if kind == "condition":
        return threading.Condition()
    if kind == "semaphore":
        return threading.Semaphore(2)
    if kind == "tempfile":
        return tempfile.TemporaryFile()
    if kind == "redirect":
        return contextlib.redirect_stdout(io.StringIO())
    if kind == "pym":
        return PyM()
    if kind == "mock":
        # everyday test code: a MagicMock used as a manager.  What `with` puts on the value stack for it is a child mock,
        # which is not a bound method: the manager object itself cannot be recovered, but that is no reason to lose the
        # frame's other managers (or to warn)
        import unittest.mock
        return unittest.mock.MagicMock()
    if kind == "oddexit":
        # the type's __exit__ is a callable OBJECT (no descriptor: `with` uses it as it is) that answers unknown attribute
        # lookups with an exception of its own - a remote-object proxy, say
        return OddExitM()
    raise AssertionError(kind)


class _RaisingCallable:
    def __call__(self, *a):
        return False

    def __getattr__(self, name):
        raise RuntimeError("no attribute lookups here: %s" % name)


class OddExitM:
    def __enter__(self):
        return self

    __exit__ = _RaisingCallable()


def _mk_async(kind):
    if kind == "apym":
        return PyAM()
    if kind == "apym_sx":
        return PyAMX()
    if kind == "aexitstack":
        return contextlib.AsyncExitStack()
    if kind == "anull" and PY >= (3, 10):
        return contextlib.nullcontext(6)
    if kind == "aclosing" and PY >= (3, 10):
        return contextlib.aclosing(_agen_for_closing())
    return PyAM()


C_IMPLEMENTED = ("lock", "rlock", "stringio", "bytesio", "memoryview", "localcontext", "tempfile")


@types.coroutine
def trap(v):
    yield v


NSRC = [0]


def render(ir):
    kind = ir["kind"]
    head = {"gen": "def f(mk):", "coro": "async def f(mk):", "agen": "async def f(mk):"}[kind]
    lines = [head]
    expect = []      # per suspension point: indices of the managers that are active there

    def susp(ind, active):
        k = len(expect)
        expect.append(list(active))
        if kind == "coro":
            lines.append("    " * ind + "await trap(%d)" % k)
        else:
            lines.append("    " * ind + "yield %d" % k)

    active = []
    n = 0
    ind = 1
    opened = []
    for w in ir["withs"]:
        parts = []
        mine = []
        for it in w["items"]:
            parts.append("mk(%d)%s" % (n, (" as v%d" % n) if it["as"] else ""))
            mine.append(n)
            n += 1
        is_async = w["async"] and kind != "gen"
        lines.append("    " * ind + ("async with " if is_async else "with ") + ", ".join(parts) + ":")
        ind += 1
        active = active + mine
        opened.append(mine)
        susp(ind, active)
    # leave the blocks one by one, suspending after each
    while opened:
        mine = opened.pop()
        ind -= 1
        active = active[:len(active) - len(mine)]
        susp(ind, active)
    src = "\n".join(lines) + "\n"
    return src, expect


def run(req):
    ir = req["ir"]
    kind = ir["kind"]
    src, expect = render(ir)
    NSRC[0] += 1
    fname = "<cmgr-%d>" % NSRC[0]
    linecache.cache[fname] = (len(src), None, src.splitlines(True), fname)
    ns = {"trap": trap}
    exec(compile(src, fname, "exec"), ns)
    items = []
    reuse = []
    for w in ir["withs"]:
        is_async = w["async"] and kind != "gen"
        for it in w["items"]:
            items.append((it["k"], is_async, it["as"]))
            reuse.append(bool(it.get("reuse")))
    made = {}
    obs = []
    stats = {"points": 0, "c_implemented_active": 0, "max_active": 0, "same_object_entered_again": 0, "exiting_points": 0}

    def mk(i):
        k, is_async, _as = items[i]
        if not is_async and k in ("apym", "apym_sx", "aexitstack", "anull", "aclosing"):
            k = "pym"      # an async item of a program whose kind (plain generator) has no `async with`
        if reuse[i] and k in REENTRANT:
            for j in range(i - 1, -1, -1):
                if items[j][0] == items[i][0] and items[j][1] == is_async and j in made:
                    made[i] = made[j]
                    stats["same_object_entered_again"] += 1
                    return made[i]
        made[i] = _mk_async(k) if is_async else _mk_sync(k)
        if isinstance(made[i], PyAMX):
            made[i].idx = i
        return made[i]

    obj = ns["f"](mk)

    pending = [None]      # the asend() awaitable of an async generator that is suspended inside an __aexit__

    def step():
        try:
            if kind == "gen":
                return next(obj)
            if kind == "coro":
                return obj.send(None)
            if pending[0] is None:
                pending[0] = obj.asend(None)
            return pending[0].send(None)      # (a value that arrives this way was trapped below the generator's frame)
        except StopIteration as ex:
            pending[0] = None
            if kind == "agen" and ex.args:
                return ex.args[0]
            return "done"
        except StopAsyncIteration:
            pending[0] = None
            return "done"

    left = set()      # items whose exit has begun
    j = -1
    for _n in range(3 * len(expect) + 4):
        v = step()
        if v == "done":
            break
        exiting = None
        if isinstance(v, list) and v[:1] == ["x"]:
            # suspended inside the __aexit__ of item v[1] (or of a later item that entered the same object again: the
            # innermost one leaves first): the nest is linear, so everything opened before it is still active
            exiting = max(i for i in range(len(items)) if made.get(i) is made[v[1]] and i not in left)
            left.add(exiting)
            active_now = list(range(exiting + 1))
            stats["exiting_points"] += 1
        else:
            j += 1
            if v != j:
                return {"harness_error": "suspension %r where %r was expected\n%s" % (v, j, src)}
            active_now = expect[j]
            left.update(i for i in range(len(items)) if i in made and i not in active_now and i <= max(active_now + [-1]))
        want = [made[i] for i in active_now]
        stats["points"] += 1
        stats["max_active"] = max(stats["max_active"], len(want))
        stats["c_implemented_active"] += sum(1 for i in active_now if items[i][0] in C_IMPLEMENTED)
        for mode in ("trick", "ref"):
            if mode == "ref" and any(items[i][0] in ("mock", "oddexit") for i in made):
                continue      # (the referents analysis goes by the NAME of a bound exit method: documented limitation)
            set_trickery_enabled(mode == "trick")
            try:
                with warnings.catch_warnings(record=True) as w:
                    warnings.simplefilter("always")
                    try:
                        st = extract(obj)
                    except BaseException as ex:
                        obs.append({"kind": mode + ".raised", "at": j, "exc": repr(ex)})
                        continue
            finally:
                set_trickery_enabled(None)
            for x in w:
                obs.append({"kind": mode + ".warning", "at": j, "msg": str(x.message)[:200]})
            if st.error is not None or not st.frames:
                obs.append({"kind": mode + ".error", "at": j, "exc": repr(st.error)})
                continue
            ctxs = st.frames[0].contexts
            got = [c.obj for c in ctxs]
            unknowable = [items[i][0] in ("mock", "oddexit") for i in active_now]
            if len(got) != len(want) or any(a is not b and not (u and a is None) for a, b, u in zip(got, want, unknowable)):
                obs.append({"kind": mode + ".managers", "at": j, "got": [type(o).__name__ for o in got],
                            "want": [type(o).__name__ for o in want]})
                continue
            for c, i in zip(ctxs, active_now):
                if bool(c.is_async) != items[i][1] or bool(c.is_exiting) != (i == exiting):
                    obs.append({"kind": mode + ".flags", "at": j, "item": i, "is_async": c.is_async,
                                "is_exiting": c.is_exiting})
                if mode == "trick":
                    wantname = ("v%d" % i) if items[i][2] else None
                    # (an item without target may be given the name of a local that is bound to its manager: with the same
                    # object entered twice that is the other item's `as` variable)
                    alias = [("v%d" % d) for d in made if made[d] is made[i] and items[d][2] and d != i]
                    if c.varname != wantname and not (wantname is None and c.varname in alias):
                        obs.append({"kind": "trick.varname", "at": j, "item": i, "got": c.varname, "want": wantname})
            del st, ctxs
    else:
        return {"harness_error": "program did not finish\n" + src}
    res = {"obs": obs[:6], "stats": stats}
    if obs:
        res["src"] = src
    return res


def handle(req):
    if req["op"] == "cmgr.run":
        return run(req)
    raise AssertionError(req["op"])
