"""G4 (driver side): Hypothesis strategy for Stack/Frame/Context tree IRs, the abstraction of a tree under
formatting options, and a recursive-descent reader of the box-drawing text."""
import re

from hypothesis import strategies as st

from vlib.wk.treepool import FRAME_LINE, NPOOL, pool_filename, pool_line


# ------------------------------------------------------------------------------------ strategy

def _ctx(children_ctx, children_stack):
    kids = st.lists(st.one_of(children_ctx, children_ctx, children_stack,
                              st.fixed_dictionaries({"root": st.sampled_from([None, "rt"]), "frames": st.just([]),
                                                     "leaf": st.none(), "error": st.none()})),
                    min_size=0, max_size=3)
    # a hidden child context between two child task stacks: with hidden things left out, whatever separates the children
    # on either side of it becomes adjacent
    hidden_child = {"obj": None, "is_async": False, "is_exiting": False, "varname": "cv", "start_line": None,
                    "description": "cd", "hide": True, "inner": None, "children": []}
    sandwich = st.tuples(children_stack, children_stack).map(lambda p: [p[0], dict(hidden_child), p[1]])
    kids = st.one_of(kids, kids, kids, kids, sandwich)
    return st.fixed_dictionaries({
        "obj": st.sampled_from([None, "int", "str", "obj"]),
        "is_async": st.booleans(),
        "is_exiting": st.sampled_from([False, False, False, True]),
        "varname": st.sampled_from([None, "cv", "cv"]),
        "start_line": st.sampled_from([None, None, 2, 3, 99]),
        "description": st.sampled_from([None, "cd"]),
        "hide": st.sampled_from([False, False, False, False, True]),
        "inner": st.one_of(st.none(), st.none(), children_stack),
        "children": kids,
    })


def _frame(ctxs):
    return st.fixed_dictionaries({
        "fn": st.integers(0, NPOOL - 1),
        "contexts": st.lists(ctxs, min_size=0, max_size=3),
        "hide": st.sampled_from([False, False, False, True]),
        "hide_line": st.sampled_from([False, False, False, False, True]),
        # -1: the frame has no line (f_lineno is None on 3.10+ while an instruction without line information executes, e.g.
        # the implicit cleanup of `except ... as e`); Frame.lineno is then None.  On 3.9 a frame always has a line.
        "lineno": st.sampled_from([None, None, None, None, None, 0, 2, -1]),
    })


def _repeat(p):
    """direct recursion: one of the frames occurs 4-6 times in a row (the standard traceback rendering collapses such
    runs into a 'Previous line repeated' line)"""
    frames, n, at = p
    if not n or not frames:
        return frames
    at %= len(frames)
    return frames[:at] + [dict(frames[at]) for _ in range(n)] + frames[at + 1:]


def _stack(frames, top=False):
    return st.fixed_dictionaries({
        "root": st.sampled_from([None, "rt", "rt"]),
        "frames": st.tuples(st.lists(frames, min_size=0, max_size=3), st.sampled_from([0] * 9 + [4, 6]),
                            st.integers(0, 2)).map(_repeat),
        "leaf": st.sampled_from([None, None, "lf"]),
        "error": st.sampled_from([None] * 7 + ["single", "group", "raised", "multiline", "group_raised", "chained"]),
    })


def trees(max_depth=3):
    # level 0: contexts without substructure
    leaf_ctx = st.fixed_dictionaries({
        "obj": st.sampled_from([None, "int", "str"]), "is_async": st.booleans(),
        "is_exiting": st.sampled_from([False, False, True]), "varname": st.sampled_from([None, "cv"]),
        "start_line": st.sampled_from([None, 2, 3, 99]), "description": st.sampled_from([None, "cd"]),
        "hide": st.sampled_from([False, False, False, True]), "inner": st.none(), "children": st.just([])})
    ctx = leaf_ctx
    stack = _stack(_frame(ctx))
    for _ in range(max_depth):
        ctx = st.one_of(leaf_ctx, _ctx(ctx, stack))
        stack = _stack(_frame(ctx))
    return stack.map(number)


def number(tree):
    """Make every token unique: cv -> cv<N>, cd -> cd<N>, rt -> rt<N>, lf -> lf<N>."""
    ctr = [0]

    def tok(base):
        if base is None:
            return None
        ctr[0] += 1
        return "%s%d" % (base, ctr[0])

    def stack(s):
        return {"root": tok(s["root"]), "frames": [frame(f) for f in s["frames"]], "leaf": tok(s["leaf"]),
                "error": s["error"]}

    def frame(f):
        out = dict(f)
        out["contexts"] = [ctx(c) for c in f["contexts"]]
        return out

    def ctx(c):
        out = dict(c)
        out["varname"] = tok(c["varname"])
        out["description"] = tok(c["description"])
        out["inner"] = stack(c["inner"]) if c["inner"] is not None else None
        out["children"] = [stack(k) if "frames" in k else ctx(k) for k in c["children"]]
        return out

    return stack(tree)


# ------------------------------------------------------------------------------------ abstraction

PY39 = [False]      # set by the checks to the interpreter whose result is being judged


def frame_lineno(f):
    if f.get("lineno") == -1:
        return FRAME_LINE if PY39[0] else None
    return FRAME_LINE if f.get("lineno") is None else f["lineno"]


def frame_linetext(f):
    ln = frame_lineno(f)
    if not ln or f.get("hide_line"):
        return ""
    return pool_line(f["fn"], ln)


def abs_stack(s, sc, sh):
    return {"frames": [abs_frame(f, sc, sh) for f in s["frames"] if sh or not f["hide"]],
            "leaf": s["leaf"], "error": s["error"] is not None}


def stack_prints_nothing(a):
    return not a["frames"] and a["leaf"] is None and not a["error"]


def abs_frame(f, sc, sh):
    ctxs = []
    if sc:
        for c in f["contexts"]:
            a = abs_ctx(c, sc, sh)
            if a is not None:
                ctxs.append(a)
    # the frame's own code line is left out when its last context is exiting - that context's `with` line stands in for
    # it - which presupposes that this context is printed at all (contexts shown, and it is not a hidden one left out)
    exiting_last = bool(f["contexts"]) and f["contexts"][-1]["is_exiting"] and sc and (sh or not f["contexts"][-1]["hide"])
    code = (not exiting_last) and bool(frame_linetext(f))
    return {"fn": "fn%d" % f["fn"], "lineno": frame_lineno(f), "ctxs": ctxs, "code": code}


def abs_ctx(c, sc, sh):
    if c["hide"] and not sh:
        return None
    inner = abs_stack(c["inner"], sc, sh) if c["inner"] is not None else None
    if inner is not None and stack_prints_nothing(inner):
        inner = None
    kids = []
    for ch in c["children"]:
        if "frames" in ch:
            a = abs_stack(ch, sc, sh)
            kids.append({"tok": ch["root"], "inner": None if stack_prints_nothing(a) else a, "kids": []})
        else:
            a = abs_ctx(ch, sc, sh)
            if a is not None:
                kids.append({"tok": a["tok"], "inner": a["inner"], "kids": a["kids"]})
    return {"tok": c["varname"], "inner": inner, "kids": kids}


# ------------------------------------------------------------------------------------ reader

class ReadError(Exception):
    pass


HEADER = re.compile(r"^(fn\d+) in (.+) at (.+):(\d+|None)$")


def _tok(text, prefixes):
    m = re.search(r"\b(?:%s)\d+\b" % "|".join(prefixes), text)
    return m.group(0) if m else None


def read_stack_body(lines):
    """lines: the lines of a Stack after its header, at this stack's own level (no outer prefixes)."""
    frames, leaf, error = [], None, False
    i = 0
    while i < len(lines):
        ln = lines[i]
        if ln.startswith("╠ "):
            body = [ln[2:]]
            i += 1
            while i < len(lines) and lines[i].startswith("║ "):
                body.append(lines[i][2:])
                i += 1
            if error or leaf is not None:
                raise ReadError("frame after leaf/error: %r" % ln)
            frames.append(read_frame(body))
        elif ln.startswith("╚ "):
            if leaf is not None or error:
                raise ReadError("second leaf or leaf after error")
            leaf = _tok(ln[2:], ["lf"]) or "?"
            i += 1
        elif ln.startswith("  "):
            error = True
            if "Error while extracting stack" not in ln:
                raise ReadError("unexpected indented line %r" % ln)
            # everything that follows belongs to the error report
            for rest in lines[i + 1:]:
                if not rest.startswith("  "):
                    raise ReadError("line after error report with a foreign prefix: %r" % rest)
            i = len(lines)
        else:
            raise ReadError("bad stack-level line %r" % ln)
    return {"frames": frames, "leaf": leaf, "error": error}


def read_frame(body):
    m = HEADER.match(body[0])
    if not m:
        raise ReadError("bad frame header %r" % body[0])
    ctxs, code = [], False
    i = 1
    while i < len(body):
        ln = body[i]
        if ln.startswith("├ "):
            if code:
                raise ReadError("context after code line")
            first = ln[2:]
            local = []
            i += 1
            while i < len(body) and (body[i].startswith("│ ") or body[i].startswith("├─")):
                # the documented look (README): a direct child entry of a frame's context is "├── text",
                # every other line of the context is continued with "│ "
                is_child_start = body[i][2:].startswith("─ ")
                if body[i].startswith("├─") != is_child_start:
                    raise ReadError("child-entry marker and line content disagree: %r" % body[i])
                local.append(body[i][2:])
                i += 1
            a = read_ctx_body(local)
            a["tok"] = _tok(first, ["cv"])
            ctxs.append(a)
        elif ln.startswith("└ "):
            code = True
            i += 1
            if i != len(body):
                raise ReadError("code line is not the last line of its frame")
        else:
            raise ReadError("bad frame-level line %r" % ln)
    return {"fn": m.group(1), "lineno": None if m.group(4) == "None" else int(m.group(4)), "ctxs": ctxs, "code": code}


def read_ctx_body(lines):
    """lines: what Context._format produced after its first line (inner stack lines, then child entries)."""
    inner_lines, kids, cur = [], [], None
    for ln in lines:
        if not ln.strip():
            continue  # separator line around child task stacks
        if ln.startswith("─ "):
            cur = [ln[2:]]
            kids.append(cur)
        elif cur is None:
            inner_lines.append(ln)
        else:
            if not ln.startswith("  "):
                raise ReadError("bad continuation of a child entry: %r" % ln)
            cur.append(ln[2:])
    inner = read_stack_body(inner_lines) if inner_lines else None
    out = []
    for k in kids:
        a = read_ctx_body(k[1:])
        out.append({"tok": _tok(k[0], ["cv", "rt"]), "inner": a["inner"], "kids": a["kids"]})
    return {"inner": inner, "kids": out}


def read_stack(lines):
    """lines without trailing newlines; first is the header."""
    if not lines or not lines[0].startswith("stackscope.Stack"):
        raise ReadError("bad header %r" % (lines[:1],))
    return read_stack_body([l for l in lines[1:] if l.strip()])


ASCII = [("╠ ", "+ "), ("║ ", "| "), ("╚ ", "+ "), ("├─", "  "), ("├ ", ". "), ("│ ", "  "), ("─ ", ". "), ("└ ", "` ")]


def to_ascii(line):
    for k, v in ASCII:
        line = line.replace(k, v)
    return line


# ------------------------------------------------------------------------------------ classes

def tree_classes(t):
    c = set()

    def stack(s, lvl):
        if s["error"]:
            c.add("error." + s["error"])
        if s["leaf"]:
            c.add("leaf")
        for f in s["frames"]:
            if f["hide"]:
                c.add("hidden_frame" if lvl == 0 else "hidden_frame_inside_context")
            if f["hide_line"]:
                c.add("hide_line")
            for x in f["contexts"]:
                ctx(x, lvl)
            if f["contexts"] and f["contexts"][-1]["is_exiting"]:
                c.add("exiting_last_context")

    def ctx(x, lvl):
        c.add("context")
        if x["hide"]:
            c.add("hidden_context")
        if x["inner"] is not None and x["children"]:
            c.add("context_with_inner_and_children")
        if x["inner"] is not None:
            c.add("inner_stack")
            stack(x["inner"], lvl + 1)
        for k in x["children"]:
            if "frames" in k:
                c.add("child_stack_populated" if k["frames"] else "child_stack_stub")
                stack(k, lvl + 1)
            else:
                c.add("child_context")
                ctx(k, lvl + 1)

    stack(t, 0)
    return c
