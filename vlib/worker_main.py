"""Executor that runs *inside each interpreter under test*.  Pure stdlib, Python 3.9 syntax.

Reads one JSON request per line on stdin, answers one JSON line on the original stdout.  Anything the
code under test prints goes to /dev/null.  An exception escaping a handler is a harness error (the
handlers catch everything that the code under test may raise and report it as an observation).
"""
import importlib
import json
import os
import sys
import traceback


def main():
    out = os.fdopen(os.dup(1), "w", buffering=1)
    devnull = open(os.devnull, "w")
    os.dup2(devnull.fileno(), 1)
    sys.stdout = devnull
    sys.stderr = devnull
    here = os.path.dirname(os.path.dirname(os.path.abspath(__file__)))
    if here not in sys.path:
        sys.path.append(here)
    cov = None
    if os.environ.get("VERIF_COV"):
        # development aid (tools/coverage_probe.sh): which lines of the tree under test do the checks execute at all?
        try:
            import coverage
            cov = coverage.Coverage(data_file=os.path.join(os.environ["VERIF_COV"], "cov"), data_suffix=True,
                                    include=["*/stackscope/*"], branch=True)
            cov.start()
        except ImportError:
            cov = None
    try:
        import stackscope  # noqa: F401
    except BaseException:
        out.write(json.dumps({"hello": 0, "error": traceback.format_exc()}) + "\n")
        return
    out.write(json.dumps({"hello": 1, "py": list(sys.version_info[:3]),
                          "stackscope": os.path.dirname(stackscope.__file__)}) + "\n")
    handlers = {}
    for line in sys.stdin:
        line = line.strip()
        if not line:
            continue
        req = json.loads(line)
        op = req.get("op")
        try:
            modname = op.split(".")[0]
            if modname not in handlers:
                handlers[modname] = importlib.import_module("vlib.wk." + modname)
            resp = handlers[modname].handle(req)
        except (SystemError, MemoryError) as ex:
            # the interpreter reports internal corruption: equivalent to a crash of the code under test
            resp = {"corrupted": "%s: %s" % (type(ex).__name__, ex), "traceback": traceback.format_exc()[-1500:]}
        except BaseException:
            resp = {"harness_error": traceback.format_exc()[-3000:]}
        out.write(json.dumps(resp, default=repr) + "\n")
    if cov is not None:
        cov.stop()
        cov.save()


if __name__ == "__main__":
    main()
