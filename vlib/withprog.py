"""G1: Hypothesis strategy for with-programs (driver side).

The strategy draws an *un-numbered shape tree*; `finish()` then numbers managers / conditions /
suspension points in traversal order and repairs leaves that are illegal where they stand (a `break`
outside a loop becomes `noop`), so nothing is ever rejected.  The IR is plain JSON; the worker
(vlib/wk/g1.py) renders it for the interpreter it runs on.
"""
import itertools
import json

from hypothesis import strategies as st

KINDS = ["gen", "coro", "agen", "func"]
TARGET_FORMS = ["none", "name", "attr", "nested_attr", "sub", "subname", "call_sub", "tuple", "list", "star",
                "star_mid", "nested_unpack", "walrus", "arith", "kwcall", "slice", "sub_chain", "attr_sub", "call_args",
                "star_first", "tuple_attr_sub", "global_name", "maybe_attr", "maybe_sub", "maybe_unpack",
                # positional call of a callable held in a LOCAL variable; subscript by the constant ...; a slice with an
                # omitted bound (not in the always-rendered set; if rendered, an omitted bound and None are the same target)
                "call_local", "sub_ellipsis", "open_slice", "call_noargs"]
JUMPS = ("ret", "retk", "retv", "raise", "break", "continue")


def _leaf():
    kinds = st.sampled_from(["susp", "susp", "susp", "probe", "probe", "noop", "ret", "retk", "retv", "raise",
                             "break", "continue"])
    return st.builds(lambda t, g: {"t": t, "guard": g}, kinds, st.sampled_from([True, True, True, False]))


def _item():
    return st.fixed_dictionaries({
        "target": st.sampled_from(TARGET_FORMS),
        "swallow": st.sampled_from([False, False, False, True]),
        "senter": st.sampled_from([False, False, True]),
        "sexit": st.sampled_from([False, True]),
        "xraise": st.sampled_from([False] * 11 + [True]),
        "falsy": st.sampled_from([False] * 5 + [True]),
        "exitname": st.sampled_from([None] * 6 + ["Alias", "Deco", "Dual", "Eq", "Eq", "Deleg"]),
    })


def _stmt():
    def extend(children):
        block = st.lists(children, min_size=1, max_size=3)
        block12 = st.lists(children, min_size=1, max_size=2)
        opt1 = st.one_of(st.just([]), st.lists(children, min_size=1, max_size=1))
        with_ = st.fixed_dictionaries({
            "t": st.just("with"), "async": st.booleans(),
            "items": st.one_of(st.lists(_item(), min_size=1, max_size=1), st.lists(_item(), min_size=1, max_size=1),
                               st.lists(_item(), min_size=2, max_size=2), st.lists(_item(), min_size=3, max_size=4)),
            "layout": st.sampled_from(["one", "one", "multi", "paren"]),
            "body": block,
        })
        handler = st.fixed_dictionaries({"exc": st.sampled_from(["E1", "E2", "Exception"]), "as": st.booleans(),
                                         "body": block12})
        try_ = st.fixed_dictionaries({
            "t": st.just("try"), "body": block, "handlers": st.lists(handler, min_size=0, max_size=2),
            "orelse": opt1, "final": st.one_of(st.just([]), block12),
        })
        for_ = st.fixed_dictionaries({"t": st.just("for"), "n": st.sampled_from([1, 2]), "body": block, "orelse": opt1})
        while_ = st.fixed_dictionaries({"t": st.just("while"), "body": block})
        if_ = st.fixed_dictionaries({"t": st.just("if"), "body": block, "orelse": st.one_of(st.just([]), block12)})
        match_ = st.fixed_dictionaries({"t": st.just("match"), "cases": st.tuples(block12, block12).map(list)})
        return st.one_of(with_, with_, with_, with_, try_, try_, for_, while_, if_, match_)

    return st.recursive(_leaf(), extend, max_leaves=14)


@st.composite
def programs(draw, kinds=KINDS, force_with=True):
    kind = draw(st.sampled_from(kinds))
    body = draw(st.lists(_stmt(), min_size=1, max_size=3))
    if force_with and not _has_with(body):
        # wrap: a program without any with statement is trivial for every G1 property
        body = [{"t": "with", "async": draw(st.booleans()), "items": [draw(_item())], "layout": "one", "body": body}]
    conds = draw(st.lists(st.booleans(), min_size=16, max_size=16))
    sched = draw(st.lists(st.sampled_from(["send"] * 5 + ["throw:E1", "throw:E2"]), min_size=8, max_size=8))
    # code before the body that pushes it beyond the offsets one byte / two bytes / three bytes (of an EXTENDED_ARG, of an
    # exception-table varint) can express: 1 ~1200 instructions, 2 ~9600, 3 ~18000
    extarg = draw(st.sampled_from([0] * 26 + [1, 1, 1, 2, 2, 3]))
    # what else lives in the frame's fast-locals area besides plain locals (it decides where the value stack starts):
    # 1 a comprehension whose loop variable is captured (inlined into the frame on 3.12), 2 an argument that is
    # closed over, 3 both, 4 a local that becomes a cell because a nested def captures it
    closure = draw(st.sampled_from([0] * 5 + [1, 2, 3, 4]))
    # locals that have nothing to do with any manager but are awkward to look at: a dead weakref proxy, a lazy object whose
    # __class__ is computed (and logs the computation as an event of the program), a bound method of a nameless callable
    odd_locals = draw(st.sampled_from([False, False, False, True]))
    # the function has an integer literal among its constants that is too long to be turned into a decimal string (a hex
    # literal of 6000 digits: legal source, beyond sys.get_int_max_str_digits())
    big_const = draw(st.sampled_from([False] * 11 + [True]))
    return finish({"kind": kind, "body": body, "conds": conds, "sched": sched, "extarg": extarg, "closure": closure,
                   "odd_locals": odd_locals, "big_const": big_const})


def _has_with(stmts):
    return "\"with\"" in json.dumps(stmts)


def finish(prog, max_depth=5, max_managers=14):
    """Number managers/conditions/suspensions, repair illegal leaves, clip nesting depth."""
    ctr = {"m": 0, "c": 0, "s": 0, "p": 0}
    kind = prog["kind"]

    def nxt(k):
        ctr[k] += 1
        return ctr[k]

    def leaf(s, in_loop):
        t = s["t"]
        if t in ("break", "continue") and not in_loop:
            t = "noop"
        if t == "susp":
            out = {"t": "susp", "k": nxt("s")}
        elif t == "probe":
            out = {"t": "probe", "k": nxt("p")}
        else:
            out = {"t": t}
        if t in JUMPS and s.get("guard", True):
            return {"t": "if", "c": (nxt("c") - 1) % 16, "body": [out], "orelse": []}
        return out

    def block(stmts, depth, in_loop):
        return [stmt(s, depth, in_loop) for s in stmts]

    def stmt(s, depth, in_loop):
        t = s["t"]
        if t in ("susp", "probe", "noop") or t in JUMPS:
            return leaf(s, in_loop)
        if depth >= max_depth:
            return {"t": "susp", "k": nxt("s")} if kind != "func" else {"t": "probe", "k": nxt("p")}
        if t == "with":
            items = []
            for it in s["items"]:
                if ctr["m"] >= max_managers and items:
                    break
                it = dict(it)
                it["m"] = nxt("m")
                items.append(it)
            return {"t": "with", "async": s["async"], "items": items, "layout": s.get("layout", "one"),
                    "body": block(s["body"], depth + 1, in_loop)}
        if t == "try":
            return {"t": "try", "body": block(s["body"], depth + 1, in_loop),
                    "handlers": [{"exc": h["exc"], "as": h["as"], "body": block(h["body"], depth + 1, in_loop)}
                                 for h in s["handlers"]],
                    "orelse": block(s["orelse"], depth + 1, in_loop) if s["handlers"] else [],
                    "final": block(s["final"], depth + 1, in_loop)}
        if t == "for":
            return {"t": "for", "n": s["n"], "body": block(s["body"], depth + 1, True),
                    "orelse": block(s["orelse"], depth + 1, in_loop)}
        if t == "while":
            return {"t": "while", "c": (nxt("c") - 1) % 16, "body": block(s["body"], depth + 1, True)}
        if t == "if":
            return {"t": "if", "c": (nxt("c") - 1) % 16, "body": block(s["body"], depth + 1, in_loop),
                    "orelse": block(s["orelse"], depth + 1, in_loop)}
        if t == "match":
            return {"t": "match", "c": (nxt("c") - 1) % 16, "cases": [block(c, depth + 1, in_loop) for c in s["cases"]]}
        raise AssertionError(t)

    out = dict(prog)
    out["body"] = block(prog["body"], 0, False)
    out["n"] = dict(ctr)
    return out


# ---------------------------------------------------------------------------------- static features

def features(prog):
    """Static classes of a finished program (for the histogram / non-triviality rules)."""
    f = set()
    nwith = [0]

    def last_stmt_class(body):
        if not body:
            return "empty"
        t = body[-1]["t"]
        if t == "if" and len(body[-1]["body"]) == 1 and body[-1]["body"][0]["t"] in JUMPS and not body[-1]["orelse"]:
            return "guarded_" + body[-1]["body"][0]["t"]
        return t

    def walk(stmts, in_with):
        for s in stmts:
            t = s["t"]
            if t == "with":
                nwith[0] += 1
                f.add("with.async" if s["async"] else "with.sync")
                if len(s["items"]) > 1:
                    f.add("with.multi_item")
                f.add("layout." + s.get("layout", "one"))
                for it in s["items"]:
                    f.add("target." + it["target"])
                    if it.get("sexit") and s["async"]:
                        f.add("aexit_suspends")
                    if it.get("senter") and s["async"]:
                        f.add("aenter_suspends")
                    if it.get("swallow"):
                        f.add("swallow")
                    if it.get("falsy"):
                        f.add("manager.falsy")
                    if it.get("exitname"):
                        f.add("manager.exit_" + it["exitname"].lower())
                lc = last_stmt_class(s["body"])
                f.add("body_ends." + lc)
                if lc not in ("susp", "probe", "noop"):
                    f.add("body_ends_in_jump_or_compound")
                if in_with:
                    f.add("with.nested")
                walk(s["body"], True)
            elif t == "try":
                walk(s["body"], in_with)
                for h in s["handlers"]:
                    walk(h["body"], in_with)
                walk(s["orelse"], in_with)
                walk(s["final"], in_with)
                if s["final"] and "\"with\"" in json.dumps(s["final"]):
                    f.add("with.in_finally")
                if any("\"with\"" in json.dumps(h["body"]) for h in s["handlers"]):
                    f.add("with.in_except")
            elif t in ("for", "while"):
                walk(s["body"], in_with)
                walk(s.get("orelse", []), in_with)
                if "\"with\"" in json.dumps(s["body"]):
                    f.add("with.in_loop")
            elif t == "if":
                walk(s["body"], in_with)
                walk(s["orelse"], in_with)
            elif t == "match":
                for c in s["cases"]:
                    walk(c, in_with)
                f.add("match")

    walk(prog["body"], False)
    if prog.get("odd_locals"):
        f.add("odd_locals")
    if prog.get("big_const"):
        f.add("integer_constant_without_decimal_repr")
    if prog.get("closure"):
        f.add("frame_layout.closure_%d" % prog["closure"])
    if prog.get("extarg"):
        f.add("code_size.extarg_%d" % int(prog["extarg"]))
        f.add("extended_arg")
    f.add("kind." + prog["kind"])
    return f


# ---------------------------------------------------------------------------------- exhaustive table

BODY_ENDS = ["simple", "if_retk", "if_retv", "if_ret", "if_break", "if_continue", "if_raise", "try_except",
             "try_finally", "for", "while", "nested_with", "match", "if_else"]
PLACES = ["top", "for", "try_body", "except", "finally", "else", "while"]
SHAPES = ["single", "inner_of_two", "outer_of_two", "item0_of_2", "item1_of_2", "async_inner_in_sync_outer",
          "sync_inner_in_async_outer"]


def _end_stmts(end, susp):
    """Statements that finish the with body; `susp` is the suspension/probe leaf factory."""
    j = lambda t: {"t": "if", "c": 0, "body": [{"t": t}], "orelse": []}  # noqa: E731
    if end == "simple":
        return [susp()]
    if end == "if_retk":
        return [susp(), j("retk")]
    if end == "if_retv":
        return [susp(), j("retv")]
    if end == "if_ret":
        return [susp(), j("ret")]
    if end == "if_break":
        return [susp(), j("break")]
    if end == "if_continue":
        return [susp(), j("continue")]
    if end == "if_raise":
        return [susp(), j("raise")]
    if end == "try_except":
        return [{"t": "try", "body": [susp()], "handlers": [{"exc": "E2", "as": False, "body": [{"t": "noop"}]}],
                 "orelse": [], "final": []}]
    if end == "try_finally":
        return [{"t": "try", "body": [susp()], "handlers": [], "orelse": [], "final": [{"t": "noop"}]}]
    if end == "for":
        return [{"t": "for", "n": 1, "body": [susp()], "orelse": []}]
    if end == "while":
        return [{"t": "while", "c": 1, "body": [susp()]}]
    if end == "nested_with":
        return [{"t": "with", "async": False, "items": [{"m": 90, "target": "none"}], "layout": "one", "body": [susp()]}]
    if end == "match":
        return [{"t": "match", "c": 0, "cases": [[susp()], [{"t": "noop"}]]}]
    if end == "if_else":
        return [{"t": "if", "c": 0, "body": [susp()], "orelse": [{"t": "noop"}]}]
    raise AssertionError(end)


def table_programs():
    """The systematic table of exit shapes (DESIGN.md section 3): function kind x sync/async x shape x
    place x how the body ends x how it is left.  Deterministic order."""
    out = []
    for kind, is_async, shape, place, end, c0, swallow in itertools.product(
            ["gen", "coro", "agen", "func"], [False, True], SHAPES, PLACES, BODY_ENDS, [False, True], [False, True]):
        if is_async and kind in ("gen", "func"):
            continue
        if shape in ("async_inner_in_sync_outer", "sync_inner_in_async_outer") and not is_async:
            continue   # the mixed-flavour shapes exist once, under is_async=True
        if end in ("if_break", "if_continue") and place not in ("for", "while"):
            continue
        if swallow and end != "if_raise":
            continue
        ctr = [0]

        def susp():
            ctr[0] += 1
            return {"t": "susp", "k": ctr[0]} if kind != "func" else {"t": "probe", "k": ctr[0]}

        def item(m, a=None):
            a = is_async if a is None else a
            # every third table program uses an aliased / decorated exit method for its innermost manager
            en = None
            if m == 2 or shape == "single":
                en = [None, "Alias", "Deco", "Dual"][(len(out)) % 4]
            return {"m": m, "target": "name", "swallow": swallow, "senter": False, "sexit": a, "xraise": False,
                    "exitname": en}

        body = _end_stmts(end, susp)
        if shape == "single":
            w = {"t": "with", "async": is_async, "items": [item(1)], "layout": "one", "body": body}
        elif shape == "inner_of_two":
            w = {"t": "with", "async": is_async, "items": [item(1)], "layout": "one", "body": [
                {"t": "with", "async": is_async, "items": [item(2)], "layout": "one", "body": body}]}
        elif shape == "outer_of_two":
            w = {"t": "with", "async": is_async, "items": [item(1)], "layout": "one", "body": [
                {"t": "with", "async": is_async, "items": [item(2)], "layout": "one", "body": [susp()]}] + body}
        elif shape == "async_inner_in_sync_outer":
            w = {"t": "with", "async": False, "items": [item(1, False)], "layout": "one", "body": [
                {"t": "with", "async": True, "items": [item(2, True)], "layout": "one", "body": body}]}
        elif shape == "sync_inner_in_async_outer":
            w = {"t": "with", "async": True, "items": [item(1, True)], "layout": "one", "body": [
                {"t": "with", "async": False, "items": [item(2, False)], "layout": "one", "body": body}]}
        elif shape == "item0_of_2":
            w = {"t": "with", "async": is_async, "items": [item(1), item(2)], "layout": "one", "body": body}
        else:
            w = {"t": "with", "async": is_async, "items": [item(1), item(2)], "layout": "paren", "body": body}
        after = {"t": "noop"}
        if place == "top":
            stmts = [w, after]
        elif place == "for":
            stmts = [{"t": "for", "n": 2, "body": [w, after], "orelse": []}]
        elif place == "while":
            stmts = [{"t": "while", "c": 1, "body": [w, after]}]
        elif place == "try_body":
            stmts = [{"t": "try", "body": [w, after], "handlers": [{"exc": "E1", "as": True, "body": [{"t": "noop"}]}],
                      "orelse": [], "final": []}]
        elif place == "except":
            stmts = [{"t": "try", "body": [{"t": "raise"}], "handlers": [{"exc": "E1", "as": True, "body": [w, after]}],
                      "orelse": [], "final": []}]
        elif place == "else":
            stmts = [{"t": "try", "body": [{"t": "noop"}], "handlers": [{"exc": "E1", "as": False, "body": [{"t": "noop"}]}],
                      "orelse": [w, after], "final": []}]
        else:  # finally
            stmts = [{"t": "try", "body": [{"t": "noop"}], "handlers": [], "orelse": [], "final": [w, after]}]
        conds = [c0, True] + [False] * 14
        out.append({"kind": kind, "body": stmts, "conds": conds, "sched": ["send"], "extarg": False,
                    "table": [kind, is_async, shape, place, end, c0, swallow], "n": {"m": 2, "c": 2, "s": ctr[0], "p": 0}})
    out.extend(deep_programs())
    return out


def deep_programs():
    """Block nesting at and just below the compiler's limit of 20 statically nested blocks (the frame's block stack is
    then completely full on interpreters that have one)."""
    out = []
    for kind, is_async, style, n, raises in itertools.product(["gen", "coro", "func"], [False, True],
                                                              ["items", "nested", "try_mix"], [18, 19, 20], [False, True]):
        if is_async and kind != "coro":
            continue
        leaf = {"t": "susp", "k": 1} if kind != "func" else {"t": "probe", "k": 1}
        inner = [leaf] + ([{"t": "if", "c": 0, "body": [{"t": "raise"}], "orelse": []}] if raises else [])

        def item(m, last=False):
            return {"m": m, "target": "name" if m % 3 else "none", "swallow": raises and last, "senter": False,
                    "sexit": is_async and last, "xraise": False}
        if style == "items":
            body = [{"t": "with", "async": is_async, "items": [item(i + 1, i == n - 1) for i in range(n)],
                     "layout": "paren" if n % 2 else "one", "body": inner}]
        elif style == "nested":
            body = inner
            for i in range(n, 0, -1):
                body = [{"t": "with", "async": is_async, "items": [item(i, i == n)], "layout": "one", "body": body}]
        else:  # every level is try/finally + with: two blocks per level
            body = inner
            levels = n // 2
            for i in range(levels, 0, -1):
                body = [{"t": "try", "body": [{"t": "with", "async": is_async, "items": [item(i, i == levels)],
                                               "layout": "one", "body": body}],
                         "handlers": [], "orelse": [], "final": [{"t": "noop"}]}]
        out.append({"kind": kind, "body": body, "conds": [raises] + [False] * 15, "sched": ["send"], "extarg": False,
                    "deep": n, "table": [kind, is_async, "deep_" + style, "top", "deep%d" % n, raises, raises],
                    "n": {"m": n, "c": 1, "s": 1, "p": 0}})
    return out


def layout_twin(prog):
    """The same program with every multi-item with statement laid out the other way (one line <-> one item per line):
    identical bytecode, different line table.  None when nothing would change."""
    import copy
    twin = copy.deepcopy(prog)
    changed = [False]

    def walk(stmts):
        for s in stmts:
            if not isinstance(s, dict):
                continue
            if s.get("t") == "with" and len(s["items"]) >= 2:
                s["layout"] = "one" if s.get("layout", "one") != "one" else "multi"
                changed[0] = True
            for key in ("body", "orelse", "final"):
                if isinstance(s.get(key), list):
                    walk(s[key])
            for h in s.get("handlers", []) or []:
                walk(h["body"])
            for c in s.get("cases", []) or []:
                walk(c)

    walk(twin["body"])
    return twin if changed[0] else None
