"""Driver side of the standard-library-manager leg (see vlib/wk/cmgr.py): linear nests of with statements over
managers implemented in C or in the standard library, observed at every suspension point in both analysis modes."""
from hypothesis import strategies as st

from vlib.driver import Outcome, run_shards
from vlib.hyp import hyp_search
from vlib.workers import ALL, WorkerDied, WorkerSet

SYNC = ["lock", "rlock", "stringio", "bytesio", "memoryview", "localcontext", "tempfile", "nullcontext", "suppress",
        "closing", "exitstack", "condition", "semaphore", "redirect", "pym", "mock", "oddexit"]
ASYNC = ["apym", "apym_sx", "apym_sx", "aexitstack", "anull", "aclosing"]


def cases():
    # reuse: the item enters the very manager object of the nearest earlier item of the same kind again (re-entrant and
    # reusable managers: the same object is then active in two blocks at once)
    reuse = st.sampled_from([False, False, True])
    item = st.fixed_dictionaries({"k": st.sampled_from(SYNC + ["pym", "rlock"]), "as": st.booleans(), "reuse": reuse})
    aitem = st.fixed_dictionaries({"k": st.sampled_from(ASYNC), "as": st.booleans(), "reuse": reuse})
    w_sync = st.fixed_dictionaries({"async": st.just(False), "items": st.lists(item, min_size=1, max_size=3)})
    w_async = st.fixed_dictionaries({"async": st.just(True), "items": st.lists(aitem, min_size=1, max_size=3)})
    return st.fixed_dictionaries({"kind": st.sampled_from(["gen", "coro", "agen"]),
                                  "withs": st.lists(st.one_of(w_sync, w_sync, w_async, w_async), min_size=1, max_size=4)})


def shard(arg):
    out = Outcome()
    prefix = arg["prefix"]
    with WorkerSet(ALL, hooks=False) as ws:
        def chk(ir):
            viols = []
            stats = {}
            for interp in ALL:
                try:
                    res = ws[interp].request({"op": "cmgr.run", "ir": ir})
                except WorkerDied as ex:
                    viols.append({"desc": "interpreter %s died (exit %r)" % (interp, ex.returncode), "interp": interp})
                    continue
                out.per_interp[interp] += 1
                stats = res["stats"]
                for k, v in stats.items():
                    out.extra["stdlib_managers." + k] = out.extra.get("stdlib_managers." + k, 0) + v
                bad = [o for o in res["obs"] if o["kind"].startswith(prefix)]
                if bad:
                    viols.append({"desc": "standard-library managers, %s on %s: %r" % (bad[0]["kind"], interp, bad[0]),
                                  "interp": interp, "obs": bad, "src": res.get("src")})
            kinds = sorted(set(it["k"] for w in ir["withs"] for it in w["items"]))
            out.note_case({"stdlib_managers": ir}, stats.get("c_implemented_active", 0) > 0 and stats.get("max_active", 0) >= 2,
                          classes=["stdlib_managers"] + ["stdlib_managers." + k for k in kinds], n_eval=len(ALL))
            return viols
        fail = hyp_search(cases(), chk, seed=arg["seed"], max_examples=arg["n"], shrink=arg["shrink"])
        if fail:
            v = fail["violations"][0]
            out.violation(v["desc"], {"stdlib_managers": fail["case"]}, v["interp"], obs=v.get("obs"), src=v.get("src"),
                          flaky=fail["flaky"])
    return out


def run(ctx, out, prefix):
    n = ctx.pick(4, 16)
    r = run_shards("vlib.cmgrleg", "shard", [{"prefix": prefix, "seed": ctx.shard_seed("cmgr", i),
                                              "n": ctx.pick(120, 12000) // n, "shrink": not ctx.quick} for i in range(n)])
    out.merge(r)


def replay(ctx, data, prefix):
    out = Outcome()
    ir = data["case"]["stdlib_managers"]
    interps = [data["interp"]] if data.get("interp") in ALL else ALL
    with WorkerSet(interps, hooks=False) as ws:
        for interp in interps:
            res = ws[interp].request({"op": "cmgr.run", "ir": ir})
            out.note_case(data["case"], True)
            bad = [o for o in res["obs"] if o["kind"].startswith(prefix)]
            if bad:
                out.violation("standard-library managers, %s on %s: %r" % (bad[0]["kind"], interp, bad[0]), data["case"], interp)
    return out
