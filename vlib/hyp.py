"""Thin wrapper around Hypothesis: seeded, no database, no deadline, one bug at a time; returns the
(shrunk, when the shrink phase is enabled) failing case instead of raising."""
import hypothesis
from hypothesis import HealthCheck, Phase, given, settings
from hypothesis import seed as hseed


class _Fail(Exception):
    pass


def hyp_search(strategy, check_case, *, seed, max_examples, shrink=False, stateful_step_count=None):
    """check_case(case) -> list of violation dicts ([] = fine).  Returns None or
    {"case": ..., "violations": [...], "flaky": bool}."""
    state = {"last": None, "first": None}
    # Shrinking only costs time once a failure exists, i.e. never on a tree where the property holds; the quick
    # tier therefore shrinks too (the `shrink` argument is kept for callers that must not, e.g. flaky legs).
    shrink = shrink is not None
    phases = [Phase.explicit, Phase.generate] + ([Phase.shrink] if shrink else [])

    @hseed(seed)
    @settings(max_examples=max_examples, database=None, deadline=None, derandomize=False,
              report_multiple_bugs=False, suppress_health_check=list(HealthCheck), phases=phases,
              print_blob=False, verbosity=hypothesis.Verbosity.quiet)
    @given(strategy)
    def test(case):
        v = check_case(case)
        if v:
            state["last"] = (case, v)
            if state["first"] is None:
                state["first"] = (case, v)
            raise _Fail(str(v[0].get("desc"))[:200])

    try:
        test()
    except _Fail:
        case, v = state["last"]
        return {"case": case, "violations": v, "flaky": False}
    except hypothesis.errors.Flaky:
        # the failure did not reproduce on re-execution; what was observed is still a real observation
        case, v = state["first"]
        return {"case": case, "violations": v, "flaky": True}
    except BaseException as ex:
        if "Flaky" in type(ex).__name__ or any("Flaky" in type(e).__name__ for e in getattr(ex, "exceptions", ())):
            case, v = state["first"]
            return {"case": case, "violations": v, "flaky": True}
        raise
    return None
