"""Driver side of the chain-context leg (vlib/wk/chains.py: run_ctx): G2 chains in which some frames hold managers
open; every frame of the extracted stack must list exactly its own open managers, in both analysis modes."""
from hypothesis import strategies as st

from vlib import chainstrat
from vlib.driver import Outcome, run_shards
from vlib.hyp import hyp_search
from vlib.workers import ALL, WorkerDied, WorkerSet

WITH_LINKS = ["in_with_body", "agen_with_asend", "agen_with_async_for", "agen_with_anext", "gen_with_yield_from"]


def cases():
    # at least one link of the chain holds managers
    link = st.tuples(st.sampled_from(chainstrat.LINKS + WITH_LINKS * 3), st.booleans()).map(list)
    wlink = st.tuples(st.sampled_from(WITH_LINKS), st.booleans()).map(list)
    links = st.tuples(st.lists(link, max_size=3), wlink, st.lists(link, max_size=2)).map(lambda p: p[0] + [p[1]] + p[2])
    return st.fixed_dictionaries({"outer": st.sampled_from(chainstrat.OUTERS), "outer_ml": st.booleans(), "links": links,
                                  "end": st.sampled_from(chainstrat.ENDS), "nsusp": st.just(1)})


def shard(arg):
    out = Outcome()
    prefix = arg["prefix"]
    with WorkerSet(ALL, hooks=False) as ws:
        def chk(ir):
            viols = []
            stats = {}
            for interp in ALL:
                try:
                    res = ws[interp].request({"op": "chains.ctx", "ir": ir})
                except WorkerDied as ex:
                    viols.append({"desc": "interpreter %s died (exit %r)" % (interp, ex.returncode), "interp": interp})
                    continue
                out.per_interp[interp] += 1
                stats = res["stats"]
                for k, v in stats.items():
                    out.extra["chain_contexts." + k] = out.extra.get("chain_contexts." + k, 0) + v
                bad = [o for o in res["obs"] if o["kind"].startswith(prefix)]
                if bad:
                    viols.append({"desc": "managers of chain frames, %s on %s: %r" % (bad[0]["kind"], interp, bad[0]),
                                  "interp": interp, "obs": bad})
            out.note_case({"chain_contexts": ir}, stats.get("agen_frames_with_managers_reached_through_another_frame", 0) > 0
                          or stats.get("frames_with_managers", 0) >= 2,
                          classes=["chain_contexts"] + sorted("chain_contexts." + k for k, _ in ir["links"] if k in WITH_LINKS),
                          n_eval=len(ALL))
            return viols
        fail = hyp_search(cases(), chk, seed=arg["seed"], max_examples=arg["n"], shrink=arg["shrink"])
        if fail:
            v = fail["violations"][0]
            out.violation(v["desc"], {"chain_contexts": fail["case"]}, v["interp"], obs=v.get("obs"), flaky=fail["flaky"])
    return out


def run(ctx, out, prefix):
    n = ctx.pick(4, 16)
    out.merge(run_shards("vlib.chainctxleg", "shard", [{"prefix": prefix, "seed": ctx.shard_seed("chainctx", i),
                                                        "n": ctx.pick(120, 12000) // n, "shrink": not ctx.quick}
                                                       for i in range(n)]))


def replay(ctx, data, prefix):
    out = Outcome()
    ir = data["case"]["chain_contexts"]
    interps = [data["interp"]] if data.get("interp") in ALL else ALL
    with WorkerSet(interps, hooks=False) as ws:
        for interp in interps:
            res = ws[interp].request({"op": "chains.ctx", "ir": ir})
            out.note_case(data["case"], True)
            bad = [o for o in res["obs"] if o["kind"].startswith(prefix)]
            if bad:
                out.violation("managers of chain frames, %s on %s: %r" % (bad[0]["kind"], interp, bad[0]), data["case"], interp)
    return out
