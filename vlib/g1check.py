"""Shared engine of the G1 (with-program) checks C01, C02, C08, C20: generate programs with Hypothesis,
execute each on every interpreter under test, keep the observations whose kind belongs to the
property, count what was covered."""
import importlib
import json

from vlib import withprog
from vlib.driver import Outcome, run_shards
from vlib.hyp import hyp_search
from vlib.workers import ALL, WorkerDied, WorkerSet


def _merge_stats(dst, src):
    for k, v in src.items():
        dst[k] = dst.get(k, 0) + v


def _inject(cfg, prog):
    inj = cfg.get("inject")
    if not inj:
        return None
    # the phase of the stride over the injection points is a function of the generated case
    phase = sum((1 << i) for i, b in enumerate(prog["conds"]) if b) + len(prog["sched"]) * 7
    return [inj[0], inj[1], phase]


def run_prog_everywhere(ws, prog, cfg, out, interps):
    """Execute one program on each interpreter; returns (violations, merged stats)."""
    viols = []
    stats = {}
    for interp in interps:
        try:
            res = ws[interp].request({"op": "g1.run", "prog": prog, "modes": cfg["modes"],
                                      "repeat": cfg.get("repeat", 1), "inject": _inject(cfg, prog)})
        except WorkerDied as ex:
            viols.append({"desc": "interpreter %s died (exit %r) while executing the program" % (interp, ex.returncode),
                          "interp": interp, "obs": []})
            continue
        out.per_interp[interp] += 1
        _merge_stats(stats, res["stats"])
        bad = [o for o in res["obs"] if o["kind"].startswith(tuple(cfg["kinds_violation"]))]
        harness = [o for o in res["obs"] if o["kind"].startswith("harness.")]
        if harness:
            from vlib.workers import HarnessError
            raise HarnessError("g1 harness inconsistency: %r" % harness[:2])
        if bad:
            viols.append({"desc": "%s on %s: %s" % (bad[0]["kind"], interp, json.dumps(bad[0], default=repr)[:700]),
                          "interp": interp, "obs": bad[:5], "src": res.get("src")})
    return viols, stats


def shard(arg):
    cfg = arg["cfg"]
    mod = importlib.import_module(cfg["module"])
    out = Outcome()
    interps = arg["interps"]
    with WorkerSet(interps, hooks=False) as ws:
        def check_case(prog):
            viols, stats = run_prog_everywhere(ws, prog, cfg, out, interps)
            if cfg.get("layout_twin") and not viols:
                # the same bytecode with another line table, in the same long-lived workers: whatever is remembered
                # per code object must not be keyed by code equality
                twin = withprog.layout_twin(prog)
                if twin is not None:
                    v2, s2 = run_prog_everywhere(ws, twin, cfg, out, interps)
                    out.hist["layout_twins_run"] += 1
                    for v in v2:
                        v["desc"] = "layout twin (same bytecode, other line table): " + v["desc"]
                    viols = viols + v2
            feats = withprog.features(prog)
            nontrivial, classes = mod.classify(prog, stats, feats)
            out.note_case(prog, nontrivial, classes=sorted(classes) + sorted(feats), n_eval=len(interps),
                          sample={"program": prog, "observed": {k: v for k, v in stats.items()}})
            for k, v in stats.items():
                out.extra["obs." + k] = out.extra.get("obs." + k, 0) + v
            return viols

        # the systematic table slice first (deterministic), then generated programs
        for prog in arg.get("table", []):
            v = check_case(prog)
            if v:
                out.violation(v[0]["desc"], prog, v[0]["interp"], obs=v[0].get("obs"), src=v[0].get("src"),
                              origin="table")
                out.hist["table_failures"] += 1
                if out.hist["table_failures"] >= 3:
                    break
        out.extra["table_programs"] = len(arg.get("table", []))
        if arg["n"] > 0 and not out.violations:
            fail = hyp_search(withprog.programs(kinds=cfg["prog_kinds"]), check_case, seed=arg["seed"],
                              max_examples=arg["n"], shrink=arg["shrink"])
            if fail:
                v = fail["violations"][0]
                out.violation(v["desc"], fail["case"], v["interp"], obs=v.get("obs"), src=v.get("src"),
                              flaky=fail["flaky"], origin="generated")
    return out


def run(ctx, cfg, *, quick_n, thorough_n, quick_table, quick_shards=8, interps=ALL):
    table = withprog.table_programs()
    table = [p for p in table if p["kind"] in cfg["prog_kinds"]]
    if ctx.quick:
        # a fixed stride sample of the table in the quick tier; the whole table in the thorough tier
        stride = max(1, len(table) // quick_table)
        table = table[(ctx.seed % stride)::stride]
        nshards, n = quick_shards, quick_n
    else:
        nshards, n = 16, thorough_n
    args = []
    for i in range(nshards):
        args.append({"cfg": cfg, "interps": list(interps), "seed": ctx.shard_seed(i), "n": n // nshards,
                     "shrink": not ctx.quick, "table": table[i::nshards]})
    out = run_shards("vlib.g1check", "shard", args)
    out.extra["interpreters"] = list(interps)
    out.extra["table_total"] = len(table)
    out.exhaustive = False
    return out


def replay(ctx, cfg, data, interps=ALL):
    mod = importlib.import_module(cfg["module"])
    out = Outcome()
    prog = data["case"]
    use = [data["interp"]] if data.get("interp") in ALL else list(interps)
    with WorkerSet(use, hooks=False) as ws:
        viols, stats = run_prog_everywhere(ws, prog, cfg, out, use)
        nontrivial, classes = mod.classify(prog, stats, withprog.features(prog))
        out.note_case(prog, nontrivial, classes=classes, n_eval=len(use))
        for v in viols:
            out.violation(v["desc"], prog, v["interp"], obs=v.get("obs"), src=v.get("src"))
    return out
